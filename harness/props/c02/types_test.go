package c02

// Round L, class L2: the dynamic types behind the interface-typed inputs of the
// package — Feature.ID, Properties values, ExtraMembers values (interface{}).
// Every JSON/BSON-representable Go type is handed to the marshallers: sized
// and unsigned integers, float32, named scalar types, pointers (also nil and
// pointer to pointer), json.Number, typed slices and arrays (orb.Point as a
// property!), named slice and map types, typed maps, structs by value and by
// pointer with slice and map fields (not comparable), nested containers of
// them, and for BSON the primitive.* types, time.Time and []byte.
//
// Model = the widening the two encodings document: any integer type decodes as
// a number of the same value, float32 through JSON as the float64 nearest to
// its shortest 32-bit decimal text and through BSON as float64(f), pointers as
// what they point to (nil as null), typed slices/arrays as arrays, typed maps
// and tagged structs as objects, json.Number as the number it spells,
// primitive.A/D/M as array/object, the other primitive.* types as themselves,
// time.Time as primitive.DateTime in milliseconds, []byte as a generic Binary.

import (
	"encoding/json"
	"fmt"
	"math"
	"reflect"
	"strconv"
	"strings"
	"testing"
	"time"
	"unicode/utf8"

	"github.com/paulmach/orb"
	"github.com/paulmach/orb/geojson"
	"go.mongodb.org/mongo-driver/bson"
	"go.mongodb.org/mongo-driver/bson/primitive"
	"pgregory.net/rapid"

	"verifharness/internal/gen"
	"verifharness/internal/stats"
)

type (
	myInt    int64
	myUint8  uint8
	myFloat  float64
	myString string
	myBool   bool
	strList  []string
	tagMap   map[string]string
	// tagged is not comparable (slice and map fields); field names are in
	// alphabetical order so that the JSON of the struct equals the JSON of the map it decodes to.
	tagged struct {
		A int                    `json:"a" bson:"a"`
		B string                 `json:"b" bson:"b"`
		C []float64              `json:"c" bson:"c"`
		D map[string]interface{} `json:"d" bson:"d"`
	}
	customJSON struct{ N int }
)

func (c customJSON) MarshalJSON() ([]byte, error) {
	return []byte(fmt.Sprintf(`{"custom":[%d,null]}`, c.N)), nil
}

// TV describes one typed value.
type TV struct {
	K   string `json:"k"`
	I   int64  `json:"i,omitempty"`
	F   gen.F  `json:"f"`
	S   string `json:"s,omitempty"`
	B   bool   `json:"b,omitempty"`
	Sub []TV   `json:"sub,omitempty"`
}

// TKV is a keyed typed value.
type TKV struct {
	K string `json:"k"`
	V TV     `json:"v"`
}

var scalarKinds = []string{
	"nil", "bool", "string", "int", "int8", "int16", "int32", "int64", "uint", "uint8", "uint16", "uint32", "uint64",
	"float32", "float64", "myInt", "myUint8", "myFloat", "myString", "myBool",
	"ptr-int", "ptr-float64", "ptr-string", "ptr-bool", "ptr-myString", "nilptr-int", "nilptr-struct", "pptr-int",
	"jsonNumber-int", "jsonNumber-float",
}

var compositeKinds = []string{
	"strs", "ints", "floats", "bools", "strList", "arr2", "orbPoint", "orbLineString", "mapstr", "tagMap", "mapint",
	"mapany", "props", "anys", "struct", "ptr-struct", "ptr-slice", "ptr-map", "emptyslice", "emptymap",
}

var bsonOnlyKinds = []string{"primA", "primD", "primM", "oid", "datetime", "binary", "d128", "timestamp", "regex", "time", "bytes", "symbol", "javascript", "minkey"}

var jsonOnlyKinds = []string{"rawMessage", "jsonMarshaler"}

var idKinds = []string{
	"string", "int", "int8", "int32", "int64", "uint16", "uint64", "float32", "float64", "myInt", "myFloat", "myString",
	"ptr-int", "ptr-string", "ptr-myString", "pptr-int", "jsonNumber-int", "jsonNumber-float",
}

func clipInt(i int64, bits uint) int64 {
	lim := int64(1)<<(bits-1) - 1
	if i > lim {
		return lim
	}
	if i < -lim-1 {
		return -lim - 1
	}
	return i
}

func clipUint(i int64, bits uint) uint64 {
	if i < 0 {
		i = -(i + 1)
	}
	if bits < 63 && i > int64(1)<<bits-1 {
		return uint64(int64(1)<<bits - 1)
	}
	return uint64(i)
}

func f32(f float64) float32 {
	g := float32(f)
	if math.IsInf(float64(g), 0) {
		return math.MaxFloat32
	}
	return g
}

func subKey(i int) string { return "k" + strconv.Itoa(i) }

func subStrings(v TV) []string {
	out := make([]string, len(v.Sub))
	for i, s := range v.Sub {
		out[i] = s.S
	}
	return out
}

// tvGo builds the Go value; tvModel its model for the codec (ok = false: the
// kind is not representable through that codec and must not be generated for it).
func tvGo(v TV) interface{} {
	i, f := v.I, float64(v.F)
	switch v.K {
	case "nil":
		return nil
	case "bool":
		return v.B
	case "string":
		return v.S
	case "int":
		return int(i)
	case "int8":
		return int8(clipInt(i, 8))
	case "int16":
		return int16(clipInt(i, 16))
	case "int32":
		return int32(clipInt(i, 32))
	case "int64":
		return i
	case "uint":
		return uint(clipUint(i, 63))
	case "uint8":
		return uint8(clipUint(i, 8))
	case "uint16":
		return uint16(clipUint(i, 16))
	case "uint32":
		return uint32(clipUint(i, 32))
	case "uint64":
		return clipUint(i, 63)
	case "float32":
		return f32(f)
	case "float64":
		return f
	case "myInt":
		return myInt(i)
	case "myUint8":
		return myUint8(clipUint(i, 8))
	case "myFloat":
		return myFloat(f)
	case "myString":
		return myString(v.S)
	case "myBool":
		return myBool(v.B)
	case "ptr-int":
		x := int(i)
		return &x
	case "ptr-float64":
		return &f
	case "ptr-string":
		s := v.S
		return &s
	case "ptr-bool":
		b := v.B
		return &b
	case "ptr-myString":
		s := myString(v.S)
		return &s
	case "nilptr-int":
		return (*int)(nil)
	case "nilptr-struct":
		return (*tagged)(nil)
	case "pptr-int":
		x := int(i)
		p := &x
		return &p
	case "jsonNumber-int":
		return json.Number(strconv.FormatInt(i, 10))
	case "jsonNumber-float":
		return json.Number(strconv.FormatFloat(f, 'g', -1, 64))
	case "strs":
		return subStrings(v)
	case "strList":
		return strList(subStrings(v))
	case "ints":
		out := make([]int, len(v.Sub))
		for k, s := range v.Sub {
			out[k] = int(s.I)
		}
		return out
	case "floats":
		out := make([]float64, len(v.Sub))
		for k, s := range v.Sub {
			out[k] = float64(s.F)
		}
		return out
	case "bools":
		out := make([]bool, len(v.Sub))
		for k, s := range v.Sub {
			out[k] = s.B
		}
		return out
	case "arr2":
		return [2]float64{f, float64(i)}
	case "orbPoint":
		return orb.Point{f, float64(i)}
	case "orbLineString":
		return orb.LineString{{f, 1}, {2, float64(i)}}
	case "mapstr", "tagMap":
		m := map[string]string{}
		for k, s := range v.Sub {
			m[subKey(k)] = s.S
		}
		if v.K == "tagMap" {
			return tagMap(m)
		}
		return m
	case "mapint":
		m := map[string]int{}
		for k, s := range v.Sub {
			m[subKey(k)] = int(s.I)
		}
		return m
	case "mapany", "props", "primM", "ptr-map":
		m := map[string]interface{}{}
		for k, s := range v.Sub {
			m[subKey(k)] = tvGo(s)
		}
		switch v.K {
		case "props":
			return geojson.Properties(m)
		case "primM":
			return primitive.M(m)
		case "ptr-map":
			return &m
		}
		return m
	case "primD":
		d := primitive.D{}
		for k, s := range v.Sub {
			d = append(d, primitive.E{Key: subKey(k), Value: tvGo(s)})
		}
		return d
	case "anys", "primA":
		a := make([]interface{}, len(v.Sub))
		for k, s := range v.Sub {
			a[k] = tvGo(s)
		}
		if v.K == "primA" {
			return primitive.A(a)
		}
		return a
	case "ptr-slice":
		out := make([]int, len(v.Sub))
		for k, s := range v.Sub {
			out[k] = int(s.I)
		}
		return &out
	case "struct", "ptr-struct":
		t := tagged{A: int(i), B: v.S, C: []float64{f}, D: map[string]interface{}{}}
		for k, s := range v.Sub {
			t.D[subKey(k)] = tvGo(s)
		}
		if v.K == "ptr-struct" {
			return &t
		}
		return t
	case "emptyslice":
		return []string{}
	case "emptymap":
		return map[string]int{}
	case "oid":
		var o primitive.ObjectID
		for k := range o {
			o[k] = byte(i >> uint(k%8*8))
		}
		return o
	case "datetime":
		return primitive.DateTime(i)
	case "binary":
		return primitive.Binary{Subtype: byte(clipUint(i, 7)), Data: []byte(v.S + "x")}
	case "d128":
		return primitive.NewDecimal128(uint64(i), uint64(math.Float64bits(f))&0xffff)
	case "timestamp":
		return primitive.Timestamp{T: uint32(clipUint(i, 32)), I: 7}
	case "regex":
		return primitive.Regex{Pattern: "a" + strconv.FormatInt(i, 10), Options: "i"}
	case "time":
		return time.UnixMilli(i % (1 << 40)).UTC()
	case "bytes":
		return []byte(v.S + "b")
	case "symbol":
		return primitive.Symbol(v.S)
	case "javascript":
		return primitive.JavaScript(v.S)
	case "minkey":
		return primitive.MinKey{}
	case "rawMessage":
		return json.RawMessage(`{"raw":[` + strconv.FormatInt(i, 10) + `,"` + "r" + `"]}`)
	case "jsonMarshaler":
		return customJSON{N: int(i)}
	}
	panic("tvGo: unknown kind " + v.K)
}

func intVal(i int64) Val     { return Val{T: "int", I: i} }
func floatVal(f float64) Val { return Val{T: "float", F: gen.F(f)} }

func tvModel(v TV, codec string) (Val, bool) {
	i, f := v.I, float64(v.F)
	arr := func(vs []Val) (Val, bool) { return Val{T: "array", A: vs}, true }
	subModels := func() ([]Val, bool) {
		out := make([]Val, len(v.Sub))
		for k, s := range v.Sub {
			m, ok := tvModel(s, codec)
			if !ok {
				return nil, false
			}
			out[k] = m
		}
		return out, true
	}
	obj := func(vs []Val) (Val, bool) {
		kvs := make([]KV, len(vs))
		for k := range vs {
			kvs[k] = KV{K: subKey(k), V: vs[k]}
		}
		return Val{T: "object", O: kvs}, true
	}
	exact := func(x interface{}) (Val, bool) {
		if codec != "bson" {
			return Val{}, false
		}
		return Val{T: "exact", X: x}, true
	}
	switch v.K {
	case "nil", "nilptr-int", "nilptr-struct":
		return Val{T: "null"}, true
	case "bool", "myBool", "ptr-bool":
		return Val{T: "bool", B: v.B}, true
	case "string", "myString", "ptr-string", "ptr-myString":
		return Val{T: "string", S: v.S}, true
	case "int", "int64", "myInt", "ptr-int", "pptr-int", "jsonNumber-int":
		return intVal(i), true
	case "int8":
		return intVal(clipInt(i, 8)), true
	case "int16":
		return intVal(clipInt(i, 16)), true
	case "int32":
		return intVal(clipInt(i, 32)), true
	case "uint", "uint64":
		return intVal(int64(clipUint(i, 63))), true
	case "uint8", "myUint8":
		return intVal(int64(clipUint(i, 8))), true
	case "uint16":
		return intVal(int64(clipUint(i, 16))), true
	case "uint32":
		return intVal(int64(clipUint(i, 32))), true
	case "float32":
		g := f32(f)
		if codec == "json" { // encoding/json prints the shortest decimal that identifies the float32
			w, err := strconv.ParseFloat(strconv.FormatFloat(float64(g), 'g', -1, 32), 64)
			if err != nil {
				return Val{}, false
			}
			return floatVal(w), true
		}
		return floatVal(float64(g)), true
	case "float64", "myFloat", "ptr-float64", "jsonNumber-float":
		return floatVal(f), true
	case "strs", "strList":
		out := make([]Val, len(v.Sub))
		for k, s := range v.Sub {
			out[k] = Val{T: "string", S: s.S}
		}
		return arr(out)
	case "ints", "ptr-slice":
		out := make([]Val, len(v.Sub))
		for k, s := range v.Sub {
			out[k] = intVal(s.I)
		}
		return arr(out)
	case "floats":
		out := make([]Val, len(v.Sub))
		for k, s := range v.Sub {
			out[k] = floatVal(float64(s.F))
		}
		return arr(out)
	case "bools":
		out := make([]Val, len(v.Sub))
		for k, s := range v.Sub {
			out[k] = Val{T: "bool", B: s.B}
		}
		return arr(out)
	case "arr2", "orbPoint":
		return arr([]Val{floatVal(f), floatVal(float64(i))})
	case "orbLineString":
		return arr([]Val{{T: "array", A: []Val{floatVal(f), floatVal(1)}}, {T: "array", A: []Val{floatVal(2), floatVal(float64(i))}}})
	case "mapstr", "tagMap":
		out := make([]Val, len(v.Sub))
		for k, s := range v.Sub {
			out[k] = Val{T: "string", S: s.S}
		}
		return obj(out)
	case "mapint":
		out := make([]Val, len(v.Sub))
		for k, s := range v.Sub {
			out[k] = intVal(s.I)
		}
		return obj(out)
	case "mapany", "props", "ptr-map":
		ms, ok := subModels()
		if !ok {
			return Val{}, false
		}
		return obj(ms)
	case "anys":
		ms, ok := subModels()
		if !ok {
			return Val{}, false
		}
		return arr(ms)
	case "primA", "primD", "primM":
		if codec != "bson" {
			return Val{}, false
		}
		ms, ok := subModels()
		if !ok {
			return Val{}, false
		}
		if v.K == "primA" {
			return arr(ms)
		}
		return obj(ms)
	case "struct", "ptr-struct":
		ms, ok := subModels()
		if !ok {
			return Val{}, false
		}
		d, _ := obj(ms)
		return Val{T: "object", O: []KV{{K: "a", V: intVal(i)}, {K: "b", V: Val{T: "string", S: v.S}}, {K: "c", V: Val{T: "array", A: []Val{floatVal(f)}}}, {K: "d", V: d}}}, true
	case "emptyslice":
		return arr([]Val{})
	case "emptymap":
		return obj(nil)
	case "time":
		return exact(primitive.NewDateTimeFromTime(tvGo(v).(time.Time)))
	case "bytes":
		return exact(primitive.Binary{Subtype: 0, Data: tvGo(v).([]byte)})
	case "oid", "datetime", "binary", "d128", "timestamp", "regex", "symbol", "javascript", "minkey":
		return exact(tvGo(v))
	case "rawMessage":
		if codec != "json" {
			return Val{}, false
		}
		return Val{T: "object", O: []KV{{K: "raw", V: Val{T: "array", A: []Val{intVal(i), {T: "string", S: "r"}}}}}}, true
	case "jsonMarshaler":
		if codec != "json" {
			return Val{}, false
		}
		return Val{T: "object", O: []KV{{K: "custom", V: Val{T: "array", A: []Val{intVal(int64(int(i))), {T: "null"}}}}}}, true
	}
	return Val{}, false
}

// TypedCase: one feature inside one collection, all interface-typed slots filled with typed values.
type TypedCase struct {
	Codec string `json:"codec"` // json | bson
	ID    *TV    `json:"id,omitempty"`
	Props []TKV  `json:"props"`
	Extra []TKV  `json:"extra"`
}

func (c TypedCase) build() *geojson.FeatureCollection {
	f := geojson.NewFeature(orb.Point{1.5, -2})
	if c.ID != nil {
		f.ID = tvGo(*c.ID)
	}
	for _, kv := range c.Props {
		f.Properties[kv.K] = tvGo(kv.V)
	}
	fc := geojson.NewFeatureCollection().Append(f)
	if len(c.Extra) > 0 {
		fc.ExtraMembers = geojson.Properties{}
		for _, kv := range c.Extra {
			fc.ExtraMembers[kv.K] = tvGo(kv.V)
		}
	}
	return fc
}

func (c TypedCase) model() (FColl, error) {
	f := Feat{ID: Val{T: "absent"}, Geom: gen.G{V: orb.Point{1.5, -2}}, Props: []KV{}}
	if c.ID != nil {
		m, ok := tvModel(*c.ID, c.Codec)
		if !ok {
			return FColl{}, fmt.Errorf("bad case: id kind %q is not representable through %s", c.ID.K, c.Codec)
		}
		if m.T == "null" {
			m = Val{T: "absent"} // a nil pointer id is "no id" (omitted or null)
		}
		f.ID = m
	}
	conv := func(kvs []TKV) ([]KV, error) {
		out := make([]KV, len(kvs))
		for i, kv := range kvs {
			m, ok := tvModel(kv.V, c.Codec)
			if !ok {
				return nil, fmt.Errorf("bad case: kind %q is not representable through %s", kv.V.K, c.Codec)
			}
			out[i] = KV{K: kv.K, V: m}
		}
		return out, nil
	}
	var err error
	if f.Props, err = conv(c.Props); err != nil {
		return FColl{}, err
	}
	fc := FColl{Features: []Feat{f}}
	if fc.Extra, err = conv(c.Extra); err != nil {
		return FColl{}, err
	}
	return fc, nil
}

// verbatim: does the case contain a value that writes its own text into the JSON?
func (c TypedCase) verbatim() bool {
	var has func(v TV) bool
	has = func(v TV) bool {
		switch v.K {
		case "jsonNumber-int", "jsonNumber-float", "rawMessage", "jsonMarshaler":
			return true
		}
		for _, s := range v.Sub {
			if has(s) {
				return true
			}
		}
		return false
	}
	if c.ID != nil && has(*c.ID) {
		return true
	}
	for _, kv := range append(append([]TKV{}, c.Props...), c.Extra...) {
		if has(kv.V) {
			return true
		}
	}
	return false
}

func checkTyped(c TypedCase) error {
	want, err := c.model()
	if err != nil {
		return err
	}
	in, pristine := c.build(), c.build()
	untouched := func(when string) error {
		if !reflect.DeepEqual(in, pristine) {
			return fmt.Errorf("%s: the value passed to the marshaller was modified: %s became %s", when, dumpFC(pristine), dumpFC(in))
		}
		return nil
	}
	if c.Codec == "json" {
		m1, err := in.MarshalJSON()
		if err != nil {
			return fmt.Errorf("MarshalJSON: %v", err)
		}
		if err := untouched("after MarshalJSON"); err != nil {
			return err
		}
		doc, err := parseJSON(m1)
		if err != nil {
			return err
		}
		if err := shapeFC(doc, want); err != nil {
			// a nil pointer id written as "id":null is as good as no id
			return fmt.Errorf("JSON shape: %v in %s", err, clip(m1))
		}
		dec, err := geojson.UnmarshalFeatureCollection(m1)
		if err != nil {
			return fmt.Errorf("UnmarshalFeatureCollection(%s): %v", clip(m1), err)
		}
		if err := eqFC("JSON fc", want, dec); err != nil {
			return fmt.Errorf("%v; text %s", err, clip(m1))
		}
		m2, err := dec.MarshalJSON()
		if err != nil {
			return fmt.Errorf("re-marshal: %v", err)
		}
		if !c.verbatim() {
			return sameBytes("JSON fixed point (typed values)", m1, m2)
		}
		// json.Number, json.RawMessage and json.Marshaler values put their own
		// spelling into the text (1e-07 for 1e-7): the fixed point is reached one generation later
		dec2, err := geojson.UnmarshalFeatureCollection(m2)
		if err != nil {
			return fmt.Errorf("UnmarshalFeatureCollection of the re-marshalled text: %v", err)
		}
		if err := eqFC("JSON fc, second generation", want, dec2); err != nil {
			return err
		}
		m3, err := dec2.MarshalJSON()
		if err != nil {
			return fmt.Errorf("second re-marshal: %v", err)
		}
		return sameBytes("JSON fixed point (second generation, verbatim-text values)", m2, m3)
	}
	b, err := bson.Marshal(in)
	if err != nil {
		return fmt.Errorf("bson.Marshal: %v", err)
	}
	if err := untouched("after bson.Marshal"); err != nil {
		return err
	}
	dec := &geojson.FeatureCollection{}
	if err := bson.Unmarshal(b, dec); err != nil {
		return fmt.Errorf("bson.Unmarshal(%s): %v", clip([]byte(bson.Raw(b).String())), err)
	}
	if err := eqFC("BSON fc", want, dec); err != nil {
		return fmt.Errorf("%v; document %s", err, clip([]byte(bson.Raw(b).String())))
	}
	// the same feature on its own (Feature.MarshalBSON is a different entry point)
	fb, err := bson.Marshal(in.Features[0])
	if err != nil {
		return fmt.Errorf("bson.Marshal(feature): %v", err)
	}
	fd := &geojson.Feature{}
	if err := bson.Unmarshal(fb, fd); err != nil {
		return fmt.Errorf("bson.Unmarshal(feature): %v", err)
	}
	return eqFeature("BSON feature", want.Features[0], fd)
}

func genTV(t *rapid.T, codec string, depth int) TV {
	kinds := append([]string{}, scalarKinds...)
	if depth > 0 {
		kinds = append(kinds, compositeKinds...)
		kinds = append(kinds, compositeKinds...)
	}
	if codec == "bson" {
		kinds = append(kinds, bsonOnlyKinds...)
		if depth <= 0 {
			kinds = kinds[:len(kinds)-0]
		}
	} else {
		kinds = append(kinds, jsonOnlyKinds...)
	}
	k := rapid.SampledFrom(kinds).Draw(t, "tvkind")
	if depth <= 0 && (k == "primA" || k == "primD" || k == "primM") {
		k = "oid"
	}
	return genTVKind(t, k, codec, depth)
}

func genTVKind(t *rapid.T, k, codec string, depth int) TV {
	v := TV{K: k, I: genInt(t), F: gen.F(genFloat(t)), S: genString(t, "tvs", false), B: rapid.Bool().Draw(t, "tvb")}
	switch k {
	case "strs", "strList", "ints", "floats", "bools", "mapstr", "tagMap", "mapint", "ptr-slice":
		n := rapid.IntRange(0, 3).Draw(t, "subn")
		for i := 0; i < n; i++ {
			v.Sub = append(v.Sub, TV{K: "string", I: genInt(t), F: gen.F(genFloat(t)), S: genString(t, "subs", false), B: rapid.Bool().Draw(t, "subb")})
		}
	case "mapany", "props", "anys", "struct", "ptr-struct", "ptr-map", "primA", "primD", "primM":
		n := rapid.IntRange(0, 3).Draw(t, "subn")
		for i := 0; i < n; i++ {
			v.Sub = append(v.Sub, genTV(t, codec, depth-1))
		}
	}
	return v
}

func genTyped(t *rapid.T) TypedCase {
	c := TypedCase{Codec: rapid.SampledFrom([]string{"json", "bson"}).Draw(t, "codec"), Props: []TKV{}, Extra: []TKV{}}
	if rapid.IntRange(0, 3).Draw(t, "hasid") != 0 {
		id := genTVKind(t, rapid.SampledFrom(idKinds).Draw(t, "idkind"), c.Codec, 0)
		c.ID = &id
	}
	seen := map[string]bool{"type": true, "bbox": true, "features": true}
	keys := func(n int, label string) []string {
		out := []string{}
		for i := 0; i < n; i++ {
			k := genString(t, label, true)
			for seen[k] {
				k += "_"
			}
			seen[k] = true
			out = append(out, k)
		}
		return out
	}
	for _, k := range keys(rapid.IntRange(1, 5).Draw(t, "nprops"), "pk") {
		c.Props = append(c.Props, TKV{K: k, V: genTV(t, c.Codec, 2)})
	}
	for _, k := range keys(rapid.IntRange(0, 2).Draw(t, "nextra"), "ek") {
		c.Extra = append(c.Extra, TKV{K: k, V: genTV(t, c.Codec, 2)})
	}
	return c
}

func classifyTyped(c TypedCase) {
	stats.Class("kind:typed values (" + c.Codec + ")")
	if c.ID != nil {
		stats.Class("typed.id:" + c.ID.K)
	}
	var walk func(v TV)
	walk = func(v TV) {
		stats.Class("typed.value:" + v.K)
		for _, s := range v.Sub {
			if s.K != "string" || v.K == "mapany" || v.K == "anys" {
				walk(s)
			}
		}
	}
	for _, kv := range c.Props {
		walk(kv.V)
	}
	for _, kv := range c.Extra {
		walk(kv.V)
	}
	stats.NonTrivial("typed:" + gen.JSON(c))
	if stats.WantSample("typed") {
		stats.Sample("typed", c)
	}
}

// TestPropTypedValues is the rapid property of class L2.
func TestPropTypedValues(t *testing.T) {
	assumptions()
	stats.Assume("dynamic types: integers of every Go integer type with |v| <= 2^53 (uint64 <= 2^63-1), finite floats, tagged structs whose field names are in alphabetical order; []byte, time.Time and primitive.* values only through BSON, json.RawMessage and json.Marshaler values only through JSON (the other codec does not represent them as JSON values)")
	stats.Check(t, 6000, 200000, func(rt *rapid.T) {
		c := genTyped(rt)
		classifyTyped(c)
		stats.InFlight("TestPropTypedValues", c) // a runaway recursion or a data race kills the process: the driver turns this marker into the replay file
		stats.Try(rt, "TestPropTypedValues", c, func() error { return checkTyped(c) })
		stats.InFlightDone()
	})
}

// TestEnumTypedValues: every kind x {id (where legal), property, nested in a
// []interface{} and in a map, foreign member} x {JSON, BSON} with boundary numbers.
func TestEnumTypedValues(t *testing.T) {
	assumptions()
	nums := []struct {
		i int64
		f float64
	}{{0, 0}, {-1, 0.1}, {127, 1e-7}, {-129, 16777217}, {1 << 31, 3.4028234663852886e38}, {maxExactInt, 1e21}, {-maxExactInt, -5e-324}, {255, 0.30000001192092896}}
	var idx int64
	run := func(c TypedCase) {
		idx++
		if !stats.Mine(idx) {
			return
		}
		stats.Eval("TestEnumTypedValues", 1)
		classifyTyped(c)
		stats.InFlight("TestEnumTypedValues", c) // a runaway recursion or a data race kills the process: the driver turns this marker into the replay file
		stats.TryT(t, "TestEnumTypedValues", c, func() error { return checkTyped(c) })
		stats.InFlightDone()
	}
	sub := []TV{{K: "string", S: "s0", I: 5, F: 0.25, B: true}, {K: "string", S: "", I: -6, F: 1e300}}
	for _, codec := range []string{"json", "bson"} {
		kinds := append(append([]string{}, scalarKinds...), compositeKinds...)
		if codec == "bson" {
			kinds = append(kinds, bsonOnlyKinds...)
		} else {
			kinds = append(kinds, jsonOnlyKinds...)
		}
		for _, k := range kinds {
			for _, n := range nums {
				v := TV{K: k, I: n.i, F: gen.F(n.f), S: "str<é>", B: n.i%2 == 0}
				switch k {
				case "strs", "strList", "ints", "floats", "bools", "mapstr", "tagMap", "mapint", "ptr-slice":
					v.Sub = sub
				case "mapany", "props", "anys", "struct", "ptr-struct", "ptr-map", "primA", "primD", "primM":
					v.Sub = []TV{{K: "int8", I: n.i}, {K: "float32", F: gen.F(n.f)}, {K: "ptr-string", S: "p"}, {K: "ints", Sub: sub}, {K: "nilptr-int"}}
				}
				c := TypedCase{Codec: codec, Props: []TKV{{K: "v", V: v}, {K: "in.array", V: TV{K: "anys", Sub: []TV{v, v}}}, {K: "$in.map", V: TV{K: "mapany", Sub: []TV{v}}}}, Extra: []TKV{{K: "x", V: v}}}
				for _, ik := range idKinds {
					if ik == k {
						id := v
						c.ID = &id
					}
				}
				run(c)
			}
		}
	}
	stats.Subspace("dynamic types: every kind x 8 boundary numbers x {id, property, inside []interface{}, inside a map, foreign member} x {JSON, BSON}", idx, true)
}

// TestEnumSniffable (round M, class M3): every string of the sniffable table as
// id, property value, property key, array element, nested key and foreign-member
// value and name, in a single feature and in a collection, through the full
// oracle (JSON and BSON): strings stay the same strings, byte for byte.
func TestEnumSniffable(t *testing.T) {
	assumptions()
	var idx int64
	for _, s := range sniffable {
		if !utf8.ValidString(s) {
			continue
		}
		sv := Val{T: "string", S: s}
		k := strings.ReplaceAll(s, "\x00", "0")
		f := Feat{ID: sv, Geom: gen.G{V: orb.Point{1, 2}}, Props: []KV{{K: k, V: sv}, {K: "list", V: Val{T: "array", A: []Val{sv, sv}}}, {K: "nested", V: Val{T: "object", O: []KV{{K: k, V: sv}}}}}}
		fc := FColl{Features: []Feat{f, {ID: Val{T: "absent"}, Geom: gen.G{V: nil}, Props: []KV{{K: "id", V: sv}}}}, Extra: []KV{{K: "x", V: sv}}}
		if k != "type" && k != "bbox" && k != "features" {
			fc.Extra = append(fc.Extra, KV{K: k, V: Val{T: "array", A: []Val{sv}}})
		}
		for _, c := range []Case{{Kind: "feature", F: &f}, {Kind: "fc", FC: &fc}} {
			idx++
			if !stats.Mine(idx) {
				continue
			}
			stats.Eval("TestEnumSniffable", 1)
			stats.Class("string:sniffable shape (enumerated)")
			stats.NonTrivial("sniff:" + gen.JSON(c))
			c := c
			stats.TryT(t, "TestEnumSniffable", c, func() error { return checkCase(c) })
		}
	}
	stats.Subspace("type-sniffable strings (24-hex in three cases, 12/16-byte strings, UUIDs, numeric strings, literals, dates, base64, $-names, JSON texts, vocabulary) x {id, value, key, array element, nested key, foreign member} x {feature, collection}", idx, true)
}
