package c02

// Round J classes for C02.
//
//	A  TestPropConcurrent: 2..8 independent cases (main-property cases and
//	   sequences) evaluated at the same time on separate goroutines, 20 rounds
//	   each. Nothing in this package sets geojson.CustomJSONMarshaler /
//	   CustomJSONUnmarshaler (the only package-level configuration of geojson),
//	   so every case is a pure function of its input and may go in a group.
//	C  TestPropIndependent / TestEnumIndependent: every decoded value is an
//	   independent value. A document is decoded, the result is snapshotted and
//	   then SCRIBBLED on, part by part (Properties maps and everything nested in
//	   them, ExtraMembers, BBox slices, every coordinate slice and outer slice,
//	   Geometries / Features slices, ID / Type fields): after each part no OTHER
//	   part of the same decode (siblings: features of a collection, members of a
//	   geometry collection, rings of a polygon, …) may have changed; afterwards a
//	   second, unrelated document and the same document again are decoded
//	   (JSON or BSON) and must equal their expectation / the snapshot, and
//	   re-marshal to the original bytes. The same for the []byte results of the
//	   marshallers and for NewFeature / NewFeatureCollection / Properties.Clone.
//	D  noise calls: other public entry points of the package with legal but
//	   unusual arguments (other kinds, error paths, helper types, BBox /
//	   Properties helpers, a caller tagging a freshly decoded property-less
//	   feature) are interleaved between the checked calls of the sequence and
//	   independence properties; the checked calls must still agree afterwards.
//
// Class B (callbacks re-entering the API) does not apply: the only callbacks of
// geojson are the package-level CustomJSON(Un)Marshaler hooks, i.e. global
// configuration, which the property does not quantify over.

import (
	"bytes"
	"encoding/json"
	"fmt"
	"strings"
	"sync/atomic"
	"testing"
	"unsafe"

	"github.com/paulmach/orb"
	"github.com/paulmach/orb/geojson"
	"go.mongodb.org/mongo-driver/bson"
	"go.mongodb.org/mongo-driver/bson/primitive"
	"pgregory.net/rapid"

	"verifharness/internal/gen"
	"verifharness/internal/stats"
)

// ---------------------------------------------------------------- class D: noise calls

// Noise is one call of another entry point; K selects the call, G is its argument.
type Noise struct {
	K int   `json:"k"`
	G gen.G `json:"g"`
}

const noiseKinds = 16

var noiseDocs = struct {
	featForeign, fcExtra, truncated, plainFeature, emptyGC, emptyPolygon, badType []byte
}{
	featForeign:  []byte(`{"type":"Feature","geometry":null,"properties":{"a":{"b":[1,2,{"c":null}]}},"id":"noise","bbox":[1,2,3,4],"foreign":1}`),
	fcExtra:      []byte(`{"type":"FeatureCollection","features":[],"bbox":[0,0,0,1,1,1],"zz":{"k":[true]},"Type":"x"}`),
	truncated:    []byte(`{"type":"Feature","geometry":{"type":"LineString","coordinates":[[1,2],[3`),
	plainFeature: []byte(`{"type":"Feature","geometry":{"type":"Point","coordinates":[0,0]},"properties":null}`),
	emptyGC:      []byte(`{"type":"GeometryCollection","geometries":[]}`),
	emptyPolygon: []byte(`{"type":"Polygon","coordinates":[]}`),
	badType:      []byte(`{"type":"Circle","coordinates":[1,2]}`),
}

func runNoise(ns []Noise) {
	for _, n := range ns {
		noiseCall(n)
	}
}

// noiseCall makes one unchecked call. All arguments are legal for the entry
// point (errors are legal outcomes); a panic is still a failure (Guard).
func noiseCall(n Noise) {
	g := n.G.V
	k := n.K % noiseKinds
	if k < 0 {
		k += noiseKinds
	}
	switch k {
	case 0:
		_, _ = geojson.NewGeometry(g).MarshalJSON()
	case 1:
		_, _ = bson.Marshal(geojson.NewGeometry(g))
	case 2:
		_, _ = geojson.UnmarshalGeometry(noiseDocs.badType)
		_ = json.Unmarshal(noiseDocs.badType, &geojson.Geometry{})
	case 3:
		_, _ = geojson.UnmarshalFeature(noiseDocs.featForeign)
	case 4:
		_, _ = geojson.UnmarshalFeatureCollection(noiseDocs.fcExtra)
	case 5:
		_, _ = geojson.UnmarshalFeature(noiseDocs.truncated)
		_, _ = geojson.UnmarshalFeatureCollection(noiseDocs.truncated)
	case 6:
		_, _ = geojson.UnmarshalFeature([]byte(" null "))
		_ = json.Unmarshal([]byte("null"), &geojson.Feature{})
		_ = json.Unmarshal([]byte("null"), &geojson.FeatureCollection{})
	case 7:
		if b, err := json.Marshal(geojson.LineString{{1, 2}, {3, 4}}); err == nil {
			_ = json.Unmarshal(b, new(geojson.Point))
			_ = json.Unmarshal(b, new(geojson.LineString))
		}
		if b, err := bson.Marshal(geojson.MultiPoint{{5, 6}}); err == nil {
			_ = bson.Unmarshal(b, new(geojson.MultiPoint))
			_ = bson.Unmarshal(b, new(geojson.Polygon))
		}
	case 8:
		if g != nil {
			_ = geojson.NewBBox(g.Bound()).Bound()
		}
		_ = geojson.BBox{1, 2, 3}.Valid()
		_ = geojson.BBox(nil).Bound()
		_ = geojson.BBox{1, 2, 3, 4, 5, 6}.Bound()
	case 9:
		p := geojson.Properties{"a": 1, "b": 2.5, "s": "x", "t": true}
		_ = p.MustInt("a")
		_ = p.MustInt("b")
		_ = p.MustFloat64("zz", 1.5)
		_ = p.MustString("s")
		_ = p.MustBool("nope", false)
		q := p.Clone()
		q["extra"] = []interface{}{1}
	case 10:
		if g != nil {
			_ = geojson.NewFeature(g).Point()
		}
	case 11:
		fc := geojson.NewFeatureCollection()
		fc.Append(geojson.NewFeature(g))
		fc.ExtraMembers = geojson.Properties{"noise": map[string]interface{}{"deep": []interface{}{nil}}}
		_, _ = fc.MarshalJSON()
		_, _ = bson.Marshal(fc)
	case 12:
		if b, err := bson.Marshal(geojson.NewFeature(g)); err == nil {
			_ = bson.Unmarshal(b, &geojson.Feature{})
		}
	case 13:
		// what callers (and orb's own maptile tests) do with a decoded feature: tag it
		if f, err := geojson.UnmarshalFeature(noiseDocs.plainFeature); err == nil && f != nil {
			if f.Properties == nil {
				f.Properties = geojson.Properties{}
			}
			f.Properties["noise-tag"] = true
			f.BBox = append(f.BBox, 1, 2, 3, 4)
		}
	case 14:
		_, _ = geojson.UnmarshalGeometry(noiseDocs.emptyGC)
		_, _ = geojson.UnmarshalGeometry(noiseDocs.emptyPolygon)
	case 15:
		if b, err := bson.Marshal(bson.M{"type": "Nope", "features": bson.A{}}); err == nil {
			_ = bson.Unmarshal(b, &geojson.FeatureCollection{})
			_ = bson.Unmarshal(b, &geojson.Feature{})
			_ = bson.Unmarshal(b, &geojson.Geometry{})
		}
	}
}

func genNoise(t *rapid.T, max int) []Noise {
	n := rapid.IntRange(1, max).Draw(t, "noisecalls")
	out := make([]Noise, n)
	small := geomOpts
	small.MaxLen = 3
	small.MaxDepth = 1
	for i := range out {
		out[i] = Noise{K: rapid.IntRange(0, noiseKinds-1).Draw(t, "noisek"), G: gen.G{V: gen.Geom(small).Draw(t, "noiseg")}}
	}
	return out
}

// ---------------------------------------------------------------- class C: scribbling

const scribbleKey = "__scribbled__"

var scribblePt = orb.Point{4.04e40, -4.04e40}

// scribbleAny overwrites everything reachable from a decoded JSON-ish value:
// writes a key into every map, replaces every map value and slice element,
// appends to every slice (which writes into spare capacity when there is any).
func scribbleAny(v interface{}) {
	switch x := v.(type) {
	case map[string]interface{}:
		scribbleMap(x)
	case geojson.Properties:
		scribbleMap(x)
	case primitive.M:
		scribbleMap(x)
	case primitive.D:
		for i := range x {
			scribbleAny(x[i].Value)
			x[i] = primitive.E{Key: scribbleKey, Value: true}
		}
		_ = append(x, primitive.E{Key: scribbleKey, Value: 1})
	case []interface{}:
		scribbleSlice(x)
	case primitive.A:
		scribbleSlice(x)
	}
}

func scribbleMap(m map[string]interface{}) {
	if m == nil {
		return
	}
	for k, v := range m {
		scribbleAny(v)
		m[k] = "scribbled"
	}
	m[scribbleKey] = true
}

func scribbleSlice(a []interface{}) {
	for i := range a {
		scribbleAny(a[i])
		a[i] = "scribbled"
	}
	_ = append(a, "scribbled")
}

func scribblePts(ps []orb.Point) {
	for i := range ps {
		ps[i] = scribblePt
	}
	_ = append(ps, scribblePt)
}

// part is one separately mutable piece of a decoded value.
type part struct {
	name     string
	dump     func() string
	scribble func()
}

func ptsHeader(ps []orb.Point) string {
	return fmt.Sprintf("%p/%d", unsafe.SliceData(ps), len(ps))
}

func ptsPart(name string, ps []orb.Point) part {
	return part{name, func() string { return gen.Canon(orb.LineString(ps)) }, func() { scribblePts(ps) }}
}

// geomParts lists the mutable pieces of a decoded orb.Geometry: every point
// slice, and every outer slice (shallow: the headers of its elements).
func geomParts(name string, g orb.Geometry, out *[]part) {
	switch v := g.(type) {
	case orb.MultiPoint:
		*out = append(*out, ptsPart(name, v))
	case orb.LineString:
		*out = append(*out, ptsPart(name, v))
	case orb.Ring:
		*out = append(*out, ptsPart(name, v))
	case orb.MultiLineString:
		for i := range v {
			*out = append(*out, ptsPart(fmt.Sprintf("%s[%d]", name, i), v[i]))
		}
		*out = append(*out, part{name + " (outer slice)", func() string {
			var sb strings.Builder
			for _, l := range v {
				sb.WriteString(ptsHeader(l) + ",")
			}
			return sb.String()
		}, func() {
			for i := range v {
				v[i] = orb.LineString{scribblePt}
			}
			_ = append(v, orb.LineString{scribblePt})
		}})
	case orb.Polygon:
		polygonParts(name, v, out)
	case orb.MultiPolygon:
		for i := range v {
			polygonParts(fmt.Sprintf("%s[%d]", name, i), v[i], out)
		}
		*out = append(*out, part{name + " (outer slice)", func() string {
			var sb strings.Builder
			for _, p := range v {
				fmt.Fprintf(&sb, "%p/%d,", unsafe.SliceData(p), len(p))
			}
			return sb.String()
		}, func() {
			for i := range v {
				v[i] = orb.Polygon{orb.Ring{scribblePt}}
			}
			_ = append(v, orb.Polygon{orb.Ring{scribblePt}})
		}})
	case orb.Collection:
		for i := range v {
			geomParts(fmt.Sprintf("%s.member[%d]", name, i), v[i], out)
		}
		*out = append(*out, part{name + " (collection slice)", func() string {
			var sb strings.Builder
			for _, m := range v {
				switch mv := m.(type) {
				case nil:
					sb.WriteString("nil,")
				case orb.Point, orb.Bound:
					sb.WriteString(gen.Canon(mv) + ",")
				default:
					sb.WriteString(gen.KindOf(m) + ",")
				}
			}
			return sb.String()
		}, func() {
			for i := range v {
				v[i] = scribblePt
			}
			_ = append(v, orb.Geometry(scribblePt))
		}})
	}
}

func polygonParts(name string, p orb.Polygon, out *[]part) {
	for i := range p {
		*out = append(*out, ptsPart(fmt.Sprintf("%s.ring[%d]", name, i), p[i]))
	}
	*out = append(*out, part{name + " (ring slice)", func() string {
		var sb strings.Builder
		for _, r := range p {
			sb.WriteString(ptsHeader(r) + ",")
		}
		return sb.String()
	}, func() {
		for i := range p {
			p[i] = orb.Ring{scribblePt}
		}
		_ = append(p, orb.Ring{scribblePt})
	}})
}

func bboxPart(name string, bb geojson.BBox) part {
	return part{name, func() string { return dumpBBox(bb) }, func() {
		for i := range bb {
			bb[i] = 4.04e40
		}
		_ = append(bb, 4.04e40)
	}}
}

func featureParts(name string, f *geojson.Feature, out *[]part) {
	if f == nil {
		return
	}
	props := f.Properties
	*out = append(*out, part{name + ".properties", func() string { return dumpAny(props) }, func() {
		if props == nil {
			// a caller that wants to tag the feature makes the map; that cannot touch shared state
			f.Properties = geojson.Properties{scribbleKey: true}
			return
		}
		scribbleAny(props)
	}})
	if f.BBox != nil {
		*out = append(*out, bboxPart(name+".bbox", f.BBox))
	}
	geomParts(name+".geometry", f.Geometry, out)
	*out = append(*out, part{name + " (id, type, geometry fields)", func() string {
		return fmt.Sprintf("%s|%q|%s", dumpAny(f.ID), f.Type, gen.KindOf(f.Geometry))
	}, func() {
		f.ID = "scribbled"
		f.Type = "Scribbled"
		f.Geometry = scribblePt
		f.BBox = geojson.BBox{4.04e40}
	}})
}

func geometryParts(name string, g *geojson.Geometry, out *[]part) {
	if g == nil {
		return
	}
	geomParts(name+".Coordinates", g.Coordinates, out)
	gs := g.Geometries
	for i, m := range gs {
		geometryParts(fmt.Sprintf("%s.Geometries[%d]", name, i), m, out)
	}
	if gs != nil {
		*out = append(*out, part{name + ".Geometries (slice)", func() string {
			var sb strings.Builder
			for _, m := range gs {
				fmt.Fprintf(&sb, "%p,", m)
			}
			return sb.String()
		}, func() {
			for i := range gs {
				gs[i] = &geojson.Geometry{Type: "Scribbled"}
			}
			_ = append(gs, &geojson.Geometry{Type: "Scribbled"})
		}})
	}
	*out = append(*out, part{name + " (Type field)", func() string { return g.Type }, func() {
		g.Type = "Scribbled"
		g.Coordinates = scribblePt
		g.Geometries = nil
	}})
}

func fcParts(name string, c *geojson.FeatureCollection, out *[]part) {
	if c == nil {
		return
	}
	extra := c.ExtraMembers
	*out = append(*out, part{name + ".ExtraMembers", func() string { return dumpAny(extra) }, func() {
		if extra == nil {
			c.ExtraMembers = geojson.Properties{scribbleKey: true}
			return
		}
		scribbleAny(extra)
	}})
	if c.BBox != nil {
		*out = append(*out, bboxPart(name+".bbox", c.BBox))
	}
	fs := c.Features
	for i, f := range fs {
		featureParts(fmt.Sprintf("%s.features[%d]", name, i), f, out)
	}
	*out = append(*out, part{name + ".Features (slice)", func() string {
		var sb strings.Builder
		for _, f := range fs {
			fmt.Fprintf(&sb, "%p,", f)
		}
		return sb.String()
	}, func() {
		for i := range fs {
			fs[i] = &geojson.Feature{Type: "Scribbled"}
		}
		_ = append(fs, &geojson.Feature{Type: "Scribbled"})
		c.Type = "Scribbled"
		c.Features = nil
	}})
}

func (x *decoded) parts() []part {
	var out []part
	switch {
	case x.g != nil:
		geometryParts("geometry", x.g, &out)
	case x.f != nil:
		featureParts("feature", x.f, &out)
	case x.fc != nil:
		fcParts("fc", x.fc, &out)
	}
	return out
}

// scribbleAll scribbles on every part of a decoded value, one after the other.
// Whether a write into one part shows in ANOTHER part of the same decode
// (siblings sharing a map, a backing array or spare capacity) is a fact about
// memory layout that neither the property nor the package documentation speaks
// about: by the soundness rule of round L it is counted as a layout note, not
// reported as a failure. What stays a failure is a LATER decode that returns a
// value different from its model (checkIndep).
func scribbleAll(what string, x *decoded) error {
	ps := x.parts()
	cur := make([]string, len(ps))
	for i, p := range ps {
		cur[i] = p.dump()
	}
	for k, p := range ps {
		p.scribble()
		cur[k] = p.dump()
		for j, q := range ps {
			if j == k {
				continue
			}
			if d := q.dump(); d != cur[j] {
				stats.Class("layout-note:writing into one part of a decoded value changed a sibling part of the same decode")
				cur[j] = d
			}
		}
	}
	return nil
}

// stateSuspect is set once a result-independence check failed in this process:
// a change that makes decoded values share package-level state leaves that
// state poisoned for every later case of the process, so later failures of the
// OTHER tests may be knock-on effects whose replay files pass when run alone.
var stateSuspect atomic.Bool

func annotate(err error) error {
	if err != nil && stateSuspect.Load() {
		return fmt.Errorf("%w\n[note: a result-independence check failed earlier in this process; if this replay passes when run alone, it is a knock-on effect of poisoned package state: replay the TestPropIndependent / TestEnumIndependent file first]", err)
	}
	return err
}

// latch marks the process state as suspect after a failure of a check that writes into decoded values.
func latch(err error) error {
	if err != nil {
		stateSuspect.Store(true)
	}
	return err
}

func checkIndepLatched(c IndepCase) error {
	err := checkIndep(c)
	if err != nil {
		stateSuspect.Store(true)
	}
	return err
}

// IndepCase: decode A, scribble on the result, (noise,) decode the unrelated
// document B, decode A again.
type IndepCase struct {
	A     Step    `json:"a"`
	B     Step    `json:"b"`
	Noise []Noise `json:"noise,omitempty"`
}

func checkIndep(c IndepCase) error {
	for _, st := range []Step{c.A, c.B} {
		if st.Doc == "geometry" && canon(st.G.V) == nil {
			return fmt.Errorf("bad case: top-level empty collection as a bare geometry document")
		}
	}
	da, err := newDoc(c.A)
	if err != nil {
		return err
	}
	db, err := newDoc(c.B)
	if err != nil {
		return err
	}
	tagA := fmt.Sprintf("A (%s %s)", c.A.Codec, c.A.Doc)
	tagB := fmt.Sprintf("B (%s %s)", c.B.Codec, c.B.Doc)

	// the marshaller's result is the caller's: scribble on it, marshal again
	ba, err := da.marshal()
	if err != nil {
		return fmt.Errorf("%s: marshal: %v", tagA, err)
	}
	srcA := append([]byte(nil), ba...)
	for i := range ba {
		ba[i] = 0xFF
	}
	_ = append(ba, 0xFF, 0xFF, 0xFF, 0xFF)
	ba2, err := da.marshal()
	if err != nil {
		return fmt.Errorf("%s: second marshal: %v", tagA, err)
	}
	if c.A.Codec == "json" {
		if !bytes.Equal(ba2, srcA) {
			return fmt.Errorf("%s: marshalling the same value again after overwriting the first result gives different bytes:\n  first  %s\n  second %s", tagA, clip(srcA), clip(ba2))
		}
	} else { // BSON map order is not fixed: compare by content
		x, err := da.decode(ba2)
		if err != nil {
			return fmt.Errorf("%s: second marshal does not decode after the first result was overwritten: %v", tagA, err)
		}
		if err := da.verify(x); err != nil {
			return fmt.Errorf("%s: second marshal after the first result was overwritten: %v", tagA, err)
		}
	}
	if err := da.inputUntouched(tagA + ": after marshalling twice"); err != nil {
		return err
	}
	bb, err := db.marshal()
	if err != nil {
		return fmt.Errorf("%s: marshal: %v", tagB, err)
	}
	srcB := append([]byte(nil), bb...)

	// decode A, check, snapshot, scribble
	in := append([]byte(nil), srcA...)
	x1, err := da.decode(in)
	if err != nil {
		return fmt.Errorf("%s: decode: %v", tagA, err)
	}
	if err := da.verify(x1); err != nil {
		return fmt.Errorf("%s: first decode: %v", tagA, err)
	}
	snap := x1.dump()
	if err := scribbleAll(tagA, x1); err != nil {
		return err
	}
	if !bytes.Equal(in, srcA) {
		// the result aliases the caller's input bytes: a layout fact, not a violation by itself
		stats.Class("layout-note:writing into a decoded value changed the bytes it was decoded from")
		in = append([]byte(nil), srcA...)
	}
	runNoise(c.Noise)

	// an unrelated document decoded now must not see any of it
	inB := append([]byte(nil), srcB...)
	xb, err := db.decode(inB)
	if err != nil {
		return fmt.Errorf("%s: decode after scribbling on %s: %v", tagB, tagA, err)
	}
	if err := db.verify(xb); err != nil {
		return fmt.Errorf("%s decoded after the caller wrote into the decoded %s: %v", tagB, tagA, err)
	}
	if c.B.Codec == "json" {
		if m, err := remarshal(xb); err != nil {
			return fmt.Errorf("%s: re-marshal: %v", tagB, err)
		} else if !bytes.Equal(m, srcB) {
			return fmt.Errorf("%s decoded after the caller wrote into the decoded %s re-marshals differently:\n  want %s\n  got  %s", tagB, tagA, clip(srcB), clip(m))
		}
	}
	// and the same document again must equal the snapshot
	x2, err := da.decode(in)
	if err != nil {
		return fmt.Errorf("%s: second decode: %v", tagA, err)
	}
	if err := da.verify(x2); err != nil {
		return fmt.Errorf("%s decoded again after the caller wrote into the first result: %v", tagA, err)
	}
	if d2 := x2.dump(); d2 != snap {
		return fmt.Errorf("%s decoded again after the caller wrote into the first result differs from the first result as it was:\n  first  %s\n  second %s", tagA, snap, d2)
	}
	if c.A.Codec == "json" {
		if m, err := remarshal(x2); err != nil {
			return fmt.Errorf("%s: re-marshal: %v", tagA, err)
		} else if !bytes.Equal(m, srcA) {
			return fmt.Errorf("%s decoded again re-marshals differently:\n  want %s\n  got  %s", tagA, clip(srcA), clip(m))
		}
	}
	// the second results are independent of each other as well
	if err := scribbleAll(tagB, xb); err != nil {
		return err
	}
	if d2 := x2.dump(); d2 != snap {
		// two live results of different calls share memory: layout note (soundness rule);
		// the wrong-value form of it (a LATER decode differs from its model) is checked above
		stats.Class("layout-note:writing into one decoded value changed another live decoded value")
	}
	return constructorsIndependent()
}

func remarshal(x *decoded) ([]byte, error) {
	switch {
	case x.g != nil:
		return x.g.MarshalJSON()
	case x.f != nil:
		return x.f.MarshalJSON()
	}
	return x.fc.MarshalJSON()
}

// constructorsIndependent: NewFeature, NewFeatureCollection and
// Properties.Clone return values of their own.
func constructorsIndependent() error {
	f1 := geojson.NewFeature(orb.Point{1, 2})
	if f1.Properties != nil {
		f1.Properties[scribbleKey] = true
	}
	f2 := geojson.NewFeature(orb.Point{3, 4})
	if len(f2.Properties) != 0 || f2.Type != "Feature" {
		return fmt.Errorf("NewFeature after writing into the Properties of an earlier NewFeature: %s", dumpFeature(f2))
	}
	c1 := geojson.NewFeatureCollection()
	c1.Append(f1)
	c1.Type = "Scribbled"
	c2 := geojson.NewFeatureCollection()
	if len(c2.Features) != 0 || c2.Type != "FeatureCollection" || len(c2.ExtraMembers) != 0 {
		return fmt.Errorf("NewFeatureCollection after appending to an earlier one: %s", dumpFC(c2))
	}
	p := geojson.Properties{"a": 1}
	q := p.Clone()
	q["b"] = 2
	q["a"] = 3
	if len(p) != 1 || p["a"] != 1 {
		return fmt.Errorf("Properties.Clone: writing into the clone changed the original: %v", p)
	}
	return nil
}

func genDocStep(t *rapid.T, gfn func(*rapid.T) orb.Geometry, doc, codec string) Step {
	st := Step{Doc: doc, Codec: codec, Op: "decode"}
	if st.Doc == "" {
		st.Doc = rapid.SampledFrom([]string{"feature", "feature", "fc", "fc", "geometry"}).Draw(t, "doc")
	}
	if st.Codec == "" {
		st.Codec = rapid.SampledFrom([]string{"json", "json", "bson"}).Draw(t, "codec")
	}
	switch st.Doc {
	case "geometry":
		g := gfn(t)
		if canon(g) == nil {
			g = orb.Collection{orb.Collection{}}
		}
		st.G = gen.G{V: g}
	case "feature":
		f := genFeatG(t, gfn)
		st.F = &f
	default:
		fc := genFCG(t, gfn)
		st.FC = &fc
	}
	return st
}

func genIndep(t *rapid.T) IndepCase {
	theme := rapid.SampledFrom(seqThemes).Draw(t, "theme")
	gfn := themeGeom(theme)
	c := IndepCase{}
	c.A = genDocStep(t, gfn, "", "")
	sameDoc := ""
	if rapid.Bool().Draw(t, "samedoc") {
		sameDoc = c.A.Doc
	}
	c.B = genDocStep(t, gfn, sameDoc, "")
	if rapid.IntRange(0, 3).Draw(t, "bplain") == 0 {
		// B without properties / foreign members / bbox: what a shared "empty" value would be handed to
		g := gfn(t)
		f := Feat{ID: Val{T: "absent"}, Geom: gen.G{V: g}, Props: []KV{}, PropsNil: rapid.Bool().Draw(t, "bnil")}
		if c.B.Doc == "fc" {
			c.B.FC = &FColl{Features: []Feat{f, f}, Extra: []KV{}, ExtraNil: true}
			c.B.F, c.B.G = nil, gen.G{}
		} else {
			c.B.Doc, c.B.F, c.B.FC, c.B.G = "feature", &f, nil, gen.G{}
		}
	}
	if rapid.IntRange(0, 2).Draw(t, "noisy") == 0 {
		c.Noise = genNoise(t, 4)
	}
	return c
}

func stepSparse(st Step) bool {
	switch st.Doc {
	case "feature":
		return len(st.F.Props) == 0 || st.F.BBox == nil
	case "fc":
		if len(st.FC.Extra) == 0 || st.FC.BBox == nil {
			return true
		}
		for _, f := range st.FC.Features {
			if len(f.Props) == 0 || f.BBox == nil {
				return true
			}
		}
	}
	return false
}

func stepSiblings(st Step) bool {
	switch st.Doc {
	case "fc":
		return len(st.FC.Features) >= 2
	case "feature":
		return gen.KindOf(canon(st.F.Geom.V)) != "Point" && st.F.Geom.V != nil
	}
	k := gen.KindOf(canon(st.G.V))
	return k == "Collection" || strings.HasPrefix(k, "Multi") || k == "Polygon"
}

func classifyIndep(c IndepCase) {
	stats.Class("kind:independence")
	stats.Class("indep.A:" + c.A.Codec + " " + c.A.Doc)
	stats.Class("indep.B:" + c.B.Codec + " " + c.B.Doc)
	if stepSparse(c.A) {
		stats.Class("indep:A has an empty/absent properties, foreign-member or bbox part")
	}
	if stepSparse(c.B) {
		stats.Class("indep:B has an empty/absent properties, foreign-member or bbox part")
	}
	if len(c.Noise) > 0 {
		stats.Class("indep:with noise calls")
	}
	if stepSiblings(c.A) {
		stats.Class("indep:A has sibling parts")
		stats.NonTrivial("indep:" + gen.JSON(c))
		if stats.WantSample("independence") {
			stats.Sample("independence", c)
		}
	} else if stepSparse(c.A) && stepSparse(c.B) {
		stats.NonTrivial("indep:" + gen.JSON(c))
	}
}

// TestPropIndependent is the rapid result-independence property (classes C and D).
func TestPropIndependent(t *testing.T) {
	assumptions()
	stats.Assume("result independence: the check writes into every map, slice and field of a decoded value (as a caller owning the value may); a later decode of the same or another document must not see those writes")
	stats.Check(t, 6000, 200000, func(rt *rapid.T) {
		c := genIndep(rt)
		classifyIndep(c)
		stats.Try(rt, "TestPropIndependent", c, func() error { return checkIndepLatched(c) })
	})
}

// TestEnumIndependent: a table of documents (property-less / sparse features
// and collections, nested properties, every geometry kind) as A x every
// document as B x the four codec pairings.
func TestEnumIndependent(t *testing.T) {
	assumptions()
	p1, p2, p3 := orb.Point{1, 2}, orb.Point{3, 4}, orb.Point{5, 6.5}
	ring := orb.Ring{p1, p2, p3, p1}
	nestedProps := []KV{{K: "o", V: Val{T: "object", O: []KV{{K: "a", V: Val{T: "array", A: []Val{{T: "int", I: 1}, {T: "object", O: []KV{{K: "z", V: Val{T: "null"}}}}}}}}}}, {K: "l", V: Val{T: "array", A: []Val{{T: "string", S: "x"}, {T: "array", A: []Val{{T: "float", F: 0.5}}}}}}}
	plain := func(g orb.Geometry, propsNil bool) Feat {
		return Feat{ID: Val{T: "absent"}, Geom: gen.G{V: g}, Props: []KV{}, PropsNil: propsNil}
	}
	rich := Feat{ID: Val{T: "string", S: "r"}, Geom: gen.G{V: orb.Polygon{ring, ring}}, Props: nestedProps, BBox: []gen.F{1, 2, 3, 4}}
	feat := func(f Feat) Step { return Step{Doc: "feature", Op: "decode", F: &f} }
	fc := func(c FColl) Step { return Step{Doc: "fc", Op: "decode", FC: &c} }
	geo := func(g orb.Geometry) Step { return Step{Doc: "geometry", Op: "decode", G: gen.G{V: g}} }
	docs := []Step{
		feat(plain(p1, true)), feat(plain(orb.LineString{p1, p2}, false)), feat(plain(nil, true)), feat(rich),
		feat(Feat{ID: Val{T: "int", I: 7}, Geom: gen.G{V: orb.Collection{orb.LineString{p1, p2}, orb.LineString{p2, p3}}}, Props: []KV{{K: "k", V: Val{T: "string", S: "v"}}}, BBox: []gen.F{0, 0, 0, 1, 1, 1}}),
		fc(FColl{Features: []Feat{plain(p1, true), plain(p2, false)}, Extra: []KV{}, ExtraNil: true}),
		fc(FColl{Features: []Feat{rich, plain(p3, true), rich}, BBox: []gen.F{0, 0, 9, 9}, Extra: nestedProps}),
		fc(FColl{Features: []Feat{}, Extra: []KV{}}),
		geo(orb.MultiPoint{p1, p2}), geo(orb.LineString{p1, p2, p3}), geo(orb.MultiLineString{{p1, p2}, {p2, p3}, {p3, p1}}),
		geo(orb.Polygon{ring, ring}), geo(orb.MultiPolygon{{ring}, {ring, ring}}), geo(ring), geo(orb.Bound{Min: p1, Max: p2}),
		geo(orb.Collection{orb.LineString{p1, p2}, orb.LineString{p2, p3}, orb.Collection{orb.MultiPoint{p1}, orb.Polygon{ring}}, p1}),
	}
	codecs := [][2]string{{"json", "json"}, {"bson", "bson"}, {"json", "bson"}, {"bson", "json"}}
	var idx int64
	for _, a := range docs {
		for _, b := range docs {
			for _, cd := range codecs {
				idx++
				if !stats.Mine(idx) {
					continue
				}
				a.Codec, b.Codec = cd[0], cd[1]
				c := IndepCase{A: a, B: b}
				if idx%3 == 0 {
					c.Noise = []Noise{{K: int(idx % noiseKinds), G: gen.G{V: p1}}, {K: 13, G: gen.G{V: ring}}}
				}
				stats.Eval("TestEnumIndependent", 1)
				classifyIndep(c)
				stats.TryT(t, "TestEnumIndependent", c, func() error { return checkIndepLatched(c) })
			}
		}
	}
	stats.Subspace("result independence: 16 documents (property-less, sparse and rich features / collections, every geometry kind) as A x 16 as B x 4 codec pairings", idx, true)
}

// ---------------------------------------------------------------- class A: concurrent callers

// Item is one member of a concurrent group.
type Item struct {
	C *Case    `json:"c,omitempty"`
	S *SeqCase `json:"s,omitempty"`
}

func (it Item) check() error {
	switch {
	case it.C != nil:
		return checkCase(*it.C)
	case it.S != nil:
		return checkSeq(*it.S)
	}
	return fmt.Errorf("bad group member: empty")
}

// TestPropConcurrent evaluates 2..8 independent cases at the same time. The
// codecs are functions of their arguments only (no case sets the package-level
// CustomJSON(Un)Marshaler hooks), so every case must still pass: a failure means
// concurrent callers share state inside the package (scratch buffers, pools
// handing out one object twice, caches published before they are complete).
func TestPropConcurrent(t *testing.T) {
	assumptions()
	stats.Assume("concurrent groups: geojson.CustomJSONMarshaler/CustomJSONUnmarshaler are never set by this package, so all cases are pure functions of their input")
	stats.Check(t, 400, 24000, func(rt *rapid.T) {
		n := rapid.IntRange(2, 8).Draw(rt, "goroutines")
		g := make([]Item, n)
		nt := 0
		for i := range g {
			if rapid.IntRange(0, 3).Draw(rt, "seq") == 0 {
				s := genSeq(rt)
				g[i].S = &s
				nt++
			} else {
				c := drawCase(rt)
				g[i].C = &c
				if nonTrivialCase(c) {
					nt++
				}
			}
		}
		stats.Class("kind:concurrent group")
		stats.Class(fmt.Sprintf("concurrent:%d goroutines", n))
		if nt >= 2 {
			stats.NonTrivial("conc:" + gen.JSON(g))
			if stats.WantSample("concurrent") {
				stats.Sample("concurrent", g)
			}
		}
		stats.TryParallel(rt, "TestPropConcurrent", g, n, 20, func(i int) error { return annotate(g[i].check()) })
	})
}
