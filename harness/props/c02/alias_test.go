package c02

// Round L, class L5: aliasing INSIDE one input value. The value handed to the
// marshallers contains the same memory more than once: one Properties map on
// two features (and as ExtraMembers), one nested map / slice used twice inside
// the properties, the same *Feature several times in Features, one BBox slice
// shared by features and collection, one coordinate slice used twice as a
// member, windows of one backing array with equal start and different lengths,
// overlapping windows, a polygon that is a prefix window of another member's
// ring slice, nested collections that are windows of one []orb.Geometry.
//
// Expectation = value semantics: the documents must be what they would be for
// independent deep copies (the model is built from deep copies before the
// library sees the value), the input's value must be unchanged afterwards, and
// a second decode must again equal the model after the caller has scribbled on
// the first result. Whether decoded siblings share memory is only counted
// (layout notes, soundness rule of round L).

import (
	"fmt"
	"testing"

	"github.com/paulmach/orb"
	"github.com/paulmach/orb/geojson"
	"go.mongodb.org/mongo-driver/bson"
	"pgregory.net/rapid"

	"verifharness/internal/gen"
	"verifharness/internal/stats"
)

// AliasCase describes an aliased input; build reconstructs it.
type AliasCase struct {
	Mode  string  `json:"mode"`
	Buf   []gen.P `json:"buf"`   // the shared coordinate buffer (>= 6 points)
	K     int     `json:"k"`     // window parameter, 1 <= K < len(Buf)-1
	Props []KV    `json:"props"` // the shared property members
}

var aliasModes = []string{
	"props-map-on-two-features", "props-map-is-extramembers", "nested-map-twice", "nested-slice-twice", "same-feature-pointer", "shared-bbox",
	"same-slice-twice", "windows-equal-start", "windows-overlap", "polygon-prefix-window", "collection-windows", "same-geometry-two-features",
}

// aliasGeometry builds the aliased geometry of a geometry mode from ONE backing buffer.
func aliasGeometry(mode string, buf []orb.Point, k int) orb.Geometry {
	n := len(buf)
	switch mode {
	case "same-slice-twice":
		ls := orb.LineString(buf)
		r := orb.Ring(buf[:k+1])
		return orb.Collection{orb.MultiLineString{ls, ls}, orb.Polygon{r, r}, ls, orb.MultiPoint(buf), orb.MultiPolygon{{r}, {r, r}}}
	case "windows-equal-start": // as members of a multi-geometry AND as direct members of a collection, same and different kinds
		return orb.Collection{
			orb.MultiLineString{buf[:k], buf[:k+1], buf[:n]}, orb.Polygon{buf[:n], buf[:k]},
			orb.LineString(buf[:k]), orb.LineString(buf[:k+1]), orb.LineString(buf[:1]), orb.MultiPoint(buf[:k]), orb.MultiPoint(buf[:n]), orb.Ring(buf[:k+1]), orb.Ring(buf[:2]),
			orb.Collection{orb.LineString(buf[:n]), orb.LineString(buf[:k-1])},
		}
	case "windows-overlap":
		return orb.Collection{
			orb.MultiLineString{buf[0 : k+1], buf[k-1 : n], buf[k:n], buf[1:k]},
			orb.LineString(buf[0 : k+1]), orb.LineString(buf[k-1 : n]), orb.MultiPoint(buf[k:n]), orb.Ring(buf[1:k]), orb.LineString(buf[k:n]), orb.LineString(buf[k : n-1]),
		}
	case "polygon-prefix-window":
		rings := []orb.Ring{buf[:k], buf[k:], buf[1 : n-1]}
		return orb.MultiPolygon{rings[:3], rings[:1], rings[1:3], rings[:2]}
	case "collection-windows":
		inner := orb.Collection{buf[0], orb.LineString(buf[:k]), orb.MultiPoint(buf[k:]), buf[n-1]}
		return orb.Collection{inner[:1], inner[:3], inner, inner[1:4], orb.Collection{inner[:2]}}
	}
	return orb.LineString(buf)
}

// build returns the aliased collection and the model (independent deep copies).
func (c AliasCase) build() (*geojson.FeatureCollection, FColl, error) {
	if len(c.Buf) < 6 || c.K < 2 || c.K > len(c.Buf)-2 {
		return nil, FColl{}, fmt.Errorf("bad alias case: %d points, k = %d", len(c.Buf), c.K)
	}
	buf := gen.OrbPts(c.Buf)
	props := kvMap(c.Props)
	mk := func(id int, g orb.Geometry, p map[string]interface{}) *geojson.Feature {
		f := geojson.NewFeature(g)
		f.ID = id
		f.Properties = p
		return f
	}
	mf := func(id int, g orb.Geometry, p []KV) Feat {
		if p == nil {
			p = []KV{}
		}
		return Feat{ID: Val{T: "int", I: int64(id)}, Geom: gen.G{V: gen.DeepCopy(g)}, Props: p}
	}
	own := func() map[string]interface{} { return kvMap(c.Props) }
	fc := geojson.NewFeatureCollection()
	model := FColl{Extra: []KV{}}
	p0, p1 := orb.Point(buf[0]), orb.Point(buf[1])
	switch c.Mode {
	case "props-map-on-two-features":
		fc.Append(mk(1, p0, props)).Append(mk(2, p1, own())).Append(mk(3, p0, props))
		model.Features = []Feat{mf(1, p0, c.Props), mf(2, p1, c.Props), mf(3, p0, c.Props)}
	case "props-map-is-extramembers":
		ex := []KV{}
		for _, kv := range c.Props {
			if kv.K != "type" && kv.K != "bbox" && kv.K != "features" {
				ex = append(ex, kv)
			}
		}
		m := kvMap(ex)
		fc.Append(mk(1, p0, m))
		fc.ExtraMembers = m
		model.Features = []Feat{mf(1, p0, ex)}
		model.Extra = ex
	case "nested-map-twice", "nested-slice-twice":
		var shared interface{} = props
		sv := Val{T: "object", O: c.Props}
		if c.Mode == "nested-slice-twice" {
			a := []interface{}{}
			sv = Val{T: "array"}
			for _, kv := range c.Props {
				a = append(a, kv.V.toGo())
				sv.A = append(sv.A, kv.V)
			}
			shared = a
		}
		outer := map[string]interface{}{"a": shared, "b": shared, "list": []interface{}{shared, 1, shared}}
		mo := []KV{{K: "a", V: sv}, {K: "b", V: sv}, {K: "list", V: Val{T: "array", A: []Val{sv, {T: "int", I: 1}, sv}}}}
		fc.Append(mk(1, p0, outer))
		fc.ExtraMembers = geojson.Properties{"x": shared}
		model.Features = []Feat{mf(1, p0, mo)}
		model.Extra = []KV{{K: "x", V: sv}}
	case "same-feature-pointer":
		f := mk(1, orb.LineString(buf), props)
		g := mk(2, p1, own())
		fc.Append(f).Append(g).Append(f).Append(f)
		a, b := mf(1, orb.LineString(buf), c.Props), mf(2, p1, c.Props)
		model.Features = []Feat{a, b, a, a}
	case "shared-bbox":
		bb := geojson.BBox{1, 2, 3, 4}
		f, g := mk(1, p0, props), mk(2, p1, own())
		f.BBox, g.BBox, fc.BBox = bb, bb[:4:4], bb
		fc.Append(f).Append(g)
		a, b := mf(1, p0, c.Props), mf(2, p1, c.Props)
		a.BBox, b.BBox, model.BBox = []gen.F{1, 2, 3, 4}, []gen.F{1, 2, 3, 4}, []gen.F{1, 2, 3, 4}
		model.Features = []Feat{a, b}
	case "same-geometry-two-features":
		g := aliasGeometry("windows-equal-start", buf, c.K)
		fc.Append(mk(1, g, props)).Append(mk(2, g, own())).Append(mk(3, orb.LineString(buf), own()))
		model.Features = []Feat{mf(1, g, c.Props), mf(2, g, c.Props), mf(3, orb.LineString(buf), c.Props)}
	default:
		g := aliasGeometry(c.Mode, buf, c.K)
		fc.Append(mk(1, g, own())).Append(mk(2, orb.MultiPoint(buf[:c.K]), own()))
		model.Features = []Feat{mf(1, g, c.Props), mf(2, orb.MultiPoint(buf[:c.K]), c.Props)}
	}
	return fc, model, nil
}

func checkAlias(c AliasCase) error {
	in, want, err := c.build()
	if err != nil {
		return err
	}
	unchanged := func(when string) error {
		if err := eqFC("input "+when, want, in); err != nil {
			return fmt.Errorf("the aliased input's value changed %s: %v", when, err)
		}
		return nil
	}
	// JSON
	m1, err := in.MarshalJSON()
	if err != nil {
		return fmt.Errorf("MarshalJSON: %v", err)
	}
	if err := unchanged("after MarshalJSON"); err != nil {
		return err
	}
	doc, err := parseJSON(m1)
	if err != nil {
		return err
	}
	if err := shapeFC(doc, want); err != nil {
		return fmt.Errorf("JSON shape (value semantics of the aliased input): %v in %s", err, clip(m1))
	}
	dec, err := geojson.UnmarshalFeatureCollection(m1)
	if err != nil {
		return fmt.Errorf("UnmarshalFeatureCollection: %v", err)
	}
	if err := eqFC("JSON fc", want, dec); err != nil {
		return err
	}
	if m2, err := dec.MarshalJSON(); err != nil {
		return err
	} else if err := sameBytes("JSON fixed point (aliased input)", m1, m2); err != nil {
		return err
	}
	// BSON
	b, err := bson.Marshal(in)
	if err != nil {
		return fmt.Errorf("bson.Marshal: %v", err)
	}
	if err := unchanged("after bson.Marshal"); err != nil {
		return err
	}
	bd := &geojson.FeatureCollection{}
	if err := bson.Unmarshal(b, bd); err != nil {
		return fmt.Errorf("bson.Unmarshal: %v", err)
	}
	if err := eqFC("BSON fc", want, bd); err != nil {
		return fmt.Errorf("%v; document %s", err, clip([]byte(bson.Raw(b).String())))
	}
	// the bare geometry of the first feature through NewGeometry (aliased, not copied)
	if g := in.Features[0].Geometry; g != nil {
		wg := canon(want.Features[0].Geom.V)
		gm, err := geojson.NewGeometry(g).MarshalJSON()
		if err != nil {
			return fmt.Errorf("NewGeometry(aliased).MarshalJSON: %v", err)
		}
		gdoc, err := parseJSON(gm)
		if err != nil {
			return err
		}
		if err := shapeGeometry("geometry", gdoc, wg); err != nil {
			return fmt.Errorf("JSON shape of the aliased geometry: %v in %s", err, clip(gm))
		}
		gd, err := geojson.UnmarshalGeometry(gm)
		if err != nil {
			return err
		}
		if err := decodedGeom(wg, gd); err != nil {
			return fmt.Errorf("aliased geometry, JSON: %v", err)
		}
		gb, err := bson.Marshal(geojson.NewGeometry(g))
		if err != nil {
			return err
		}
		gbd := &geojson.Geometry{}
		if err := bson.Unmarshal(gb, gbd); err != nil {
			return err
		}
		if err := decodedGeom(wg, gbd); err != nil {
			return fmt.Errorf("aliased geometry, BSON: %v", err)
		}
		if err := unchanged("after marshalling the bare geometry"); err != nil {
			return err
		}
	}
	// results: scribble on the decoded values (sibling sharing is only counted), decode again
	_ = scribbleAll("JSON result", &decoded{fc: dec})
	_ = scribbleAll("BSON result", &decoded{fc: bd})
	dec2, err := geojson.UnmarshalFeatureCollection(m1)
	if err != nil {
		return fmt.Errorf("second decode: %v", err)
	}
	if err := eqFC("JSON fc decoded again after the caller wrote into the first result", want, dec2); err != nil {
		return err
	}
	bd2 := &geojson.FeatureCollection{}
	if err := bson.Unmarshal(b, bd2); err != nil {
		return fmt.Errorf("second BSON decode: %v", err)
	}
	if err := eqFC("BSON fc decoded again after the caller wrote into the first result", want, bd2); err != nil {
		return err
	}
	return unchanged("after scribbling on the decoded results")
}

func genAlias(t *rapid.T) AliasCase {
	c := AliasCase{Mode: rapid.SampledFrom(aliasModes).Draw(t, "amode")}
	n := rapid.IntRange(6, 12).Draw(t, "abuf")
	for i := 0; i < n; i++ {
		c.Buf = append(c.Buf, gen.P{gen.F(genFloat(t)), gen.F(genFloat(t))})
	}
	c.K = rapid.IntRange(2, n-2).Draw(t, "ak")
	c.Props = genKVs(t, 2, 3, nil, false)
	return c
}

// TestPropAlias is the rapid property of class L5.
func TestPropAlias(t *testing.T) {
	assumptions()
	stats.Check(t, 1200, 30000, func(rt *rapid.T) {
		c := genAlias(rt)
		stats.Class("kind:aliased input")
		stats.Class("alias:" + c.Mode)
		stats.NonTrivial("alias:" + gen.JSON(c))
		if stats.WantSample("alias") {
			stats.Sample("alias", c)
		}
		stats.InFlight("TestPropAlias", c) // a runaway recursion or a data race kills the process: the driver turns this marker into the replay file
		stats.Try(rt, "TestPropAlias", c, func() error { return latch(annotate(checkAlias(c))) })
		stats.InFlightDone()
	})
}

// TestEnumAlias: every mode x every window parameter of an 8-point buffer x three property sets.
func TestEnumAlias(t *testing.T) {
	assumptions()
	var buf []gen.P
	for i := 0; i < 8; i++ {
		buf = append(buf, gen.P{gen.F(float64(i) + 0.5), gen.F(-float64(i * i))})
	}
	propSets := [][]KV{
		{{K: "a", V: Val{T: "int", I: 1}}},
		{{K: "", V: Val{T: "null"}}, {K: "o", V: Val{T: "object", O: []KV{{K: "z", V: Val{T: "array", A: []Val{{T: "bool", B: true}}}}}}}},
		{{K: "type", V: Val{T: "string", S: "t"}}, {K: "n", V: Val{T: "float", F: 1e-7}}, {K: "l", V: Val{T: "array", A: []Val{}}}},
	}
	var idx int64
	for _, mode := range aliasModes {
		for k := 2; k <= 6; k++ {
			for _, ps := range propSets {
				idx++
				if !stats.Mine(idx) {
					continue
				}
				c := AliasCase{Mode: mode, Buf: buf, K: k, Props: ps}
				stats.Eval("TestEnumAlias", 1)
				stats.Class("alias:" + mode)
				stats.NonTrivial("alias:" + gen.JSON(c))
				stats.InFlight("TestEnumAlias", c) // a runaway recursion or a data race kills the process: the driver turns this marker into the replay file
				stats.TryT(t, "TestEnumAlias", c, func() error { return latch(annotate(checkAlias(c))) })
				stats.InFlightDone()
			}
		}
	}
	stats.Subspace("aliased inputs: 12 aliasing modes x window parameter 2..6 of an 8-point buffer x 3 property sets", idx, true)
}
