package c02

// Round L, classes L3 and L4.
//
// L3: histories on ONE reused *geojson.Feature / *FeatureCollection / *Geometry
// value: unmarshal (JSON through the method, through json.Unmarshal, BSON) into
// the existing NON-EMPTY value, marshal (JSON, BSON), the same call twice in a
// row, the caller replacing exported fields between calls, the caller copying
// the struct by value and going on with the copy. After every step the
// observable state (exported fields, and what a marshal produces) must equal
// the harness's model: decoding REPLACES the value, marshalling reads it.
//
// L4: every []byte handed to a decoder has spare capacity and is compared bit
// for bit afterwards (a change within len is a failure, a write beyond len a
// layout note), the same []byte object is decoded twice in a row, and one
// input value / one []byte is used by several goroutines at the same time
// (TestPropSharedInput). Properties.MustXxx get their variadic default through
// an existing slice with spare capacity (TestEnumMustDefaults).

import (
	"bytes"
	"encoding/json"
	"fmt"
	"reflect"
	"strings"
	"sync"
	"testing"

	"github.com/paulmach/orb"
	"github.com/paulmach/orb/geojson"
	"go.mongodb.org/mongo-driver/bson"
	"pgregory.net/rapid"

	"verifharness/internal/gen"
	"verifharness/internal/kf"
	"verifharness/internal/stats"
)

// HistOp is one step of a history.
type HistOp struct {
	Op    string `json:"op"`    // unmarshal | marshal | set | copy | append
	Codec string `json:"codec"` // json | json.Unmarshal | bson
	Field string `json:"field,omitempty"`
	Twice bool   `json:"twice,omitempty"` // the same call again, right away
	G     gen.G  `json:"g"`
	F     *Feat  `json:"f,omitempty"`
	FC    *FColl `json:"fc,omitempty"`
}

// HistCase is a history on one value.
type HistCase struct {
	Kind  string   `json:"kind"` // feature | fc | geometry
	Start HistOp   `json:"start"`
	Ops   []HistOp `json:"ops"`
}

const spareTail = 24

// spareBytes copies b into a slice with watched spare capacity.
func spareBytes(b []byte) (view []byte, full []byte) {
	full = make([]byte, len(b)+spareTail)
	copy(full, b)
	for i := len(b); i < len(full); i++ {
		full[i] = 0xA5
	}
	return full[:len(b):len(full)], full
}

// bytesUntouched: src is what was passed, full the backing array now.
func bytesUntouched(what string, src, full []byte) error {
	if !bytes.Equal(full[:len(src)], src) {
		return fmt.Errorf("%s: the decoder changed the bytes it was given: %s became %s", what, clip(src), clip(full[:len(src)]))
	}
	for _, c := range full[len(src):] {
		if c != 0xA5 {
			stats.Class("layout-note:a decoder wrote into the spare capacity of its input bytes")
			break
		}
	}
	return nil
}

// docBytes marshals an independent value of the document (input construction).
func docBytes(kind, codec string, op HistOp) ([]byte, error) {
	var v interface{}
	switch kind {
	case "feature":
		v = op.F.build()
	case "fc":
		v = op.FC.build()
	default:
		v = geojson.NewGeometry(gen.DeepCopy(op.G.V))
	}
	if codec == "bson" {
		return bson.Marshal(v)
	}
	return json.Marshal(v)
}

func decodeInto(codec string, b []byte, dst interface{}) error {
	switch codec {
	case "bson":
		return bson.Unmarshal(b, dst)
	case "json.Unmarshal":
		return json.Unmarshal(b, dst)
	}
	return dst.(json.Unmarshaler).UnmarshalJSON(b)
}

// geometryCrossKind: the known family — decoding a collection document into a
// *Geometry that holds Coordinates, or a non-collection document into one that
// holds Geometries, leaves the other field behind.
func geometryCrossKind(cur *geojson.Geometry, doc orb.Geometry) bool {
	_, coll := canon(doc).(orb.Collection)
	return (coll && cur.Coordinates != nil) || (!coll && len(cur.Geometries) > 0)
}

// hasNilMember: a decoded *Geometry whose Geometries hold a nil pointer (a null
// member, what a nested empty collection is written as).
func hasNilMember(g *geojson.Geometry) bool {
	if g == nil {
		return false
	}
	for _, m := range g.Geometries {
		if m == nil || hasNilMember(m) {
			return true
		}
	}
	return false
}

func hasObject(kvs []KV) bool {
	var has func(v Val) bool
	has = func(v Val) bool {
		if v.T == "object" {
			return true
		}
		for _, e := range v.A {
			if has(e) {
				return true
			}
		}
		return false
	}
	for _, kv := range kvs {
		if has(kv.V) {
			return true
		}
	}
	return false
}

func checkHist(c HistCase) error {
	switch c.Kind {
	case "feature":
		return histFeature(c)
	case "fc":
		return histFC(c)
	case "geometry":
		return histGeometry(c)
	}
	return fmt.Errorf("bad case kind %q", c.Kind)
}

func reps(op HistOp) int {
	if op.Twice {
		return 2
	}
	return 1
}

func histFeature(c HistCase) error {
	if c.Start.F == nil {
		return fmt.Errorf("bad case: no start feature")
	}
	m := *c.Start.F
	cur := m.build()
	for i, op := range c.Ops {
		for r := 0; r < reps(op); r++ {
			tag := fmt.Sprintf("step %d.%d (%s %s %s)", i, r, op.Op, op.Codec, op.Field)
			switch op.Op {
			case "unmarshal":
				src, err := docBytes("feature", op.Codec, op)
				if err != nil {
					return fmt.Errorf("%s: building the document: %v", tag, err)
				}
				in, full := spareBytes(src)
				if err := decodeInto(op.Codec, in, cur); err != nil {
					return fmt.Errorf("%s: decode into a non-empty Feature: %v", tag, err)
				}
				if err := bytesUntouched(tag, src, full); err != nil {
					return err
				}
				m = *op.F
			case "marshal":
				if err := marshalAgrees(tag, op.Codec, cur, func(doc interface{}) error { return shapeFeature("feature", doc, m) },
					func(b []byte) error {
						d := &geojson.Feature{}
						if err := bson.Unmarshal(b, d); err != nil {
							return err
						}
						return eqFeature("BSON feature", m, d)
					}); err != nil {
					return err
				}
			case "set":
				nf := op.F.build()
				switch op.Field {
				case "properties":
					cur.Properties, m.Props, m.PropsNil = nf.Properties, op.F.Props, op.F.PropsNil
				case "geometry":
					cur.Geometry, m.Geom = nf.Geometry, op.F.Geom
				case "bbox":
					cur.BBox, m.BBox = nf.BBox, op.F.BBox
				default:
					cur.ID, m.ID = nf.ID, op.F.ID
				}
			case "copy":
				cp := *cur
				cur = &cp
			default:
				return fmt.Errorf("bad op %q", op.Op)
			}
			if err := eqFeature(tag+": state", m, cur); err != nil {
				return err
			}
		}
	}
	return nil
}

// marshalAgrees marshals v through the codec and judges the result by the model.
func marshalAgrees(tag, codec string, v interface{}, shape func(doc interface{}) error, viaBSON func(b []byte) error) error {
	if codec == "bson" {
		b, err := bson.Marshal(v)
		if err != nil {
			return fmt.Errorf("%s: bson.Marshal: %v", tag, err)
		}
		if err := viaBSON(b); err != nil {
			return fmt.Errorf("%s: the BSON document does not denote the current state: %v", tag, err)
		}
		return nil
	}
	b, err := v.(json.Marshaler).MarshalJSON()
	if err != nil {
		return fmt.Errorf("%s: MarshalJSON: %v", tag, err)
	}
	doc, err := parseJSON(b)
	if err != nil {
		return fmt.Errorf("%s: %v", tag, err)
	}
	if err := shape(doc); err != nil {
		return fmt.Errorf("%s: the JSON text does not denote the current state: %v in %s", tag, err, clip(b))
	}
	return nil
}

func histFC(c HistCase) error {
	if c.Start.FC == nil {
		return fmt.Errorf("bad case: no start collection")
	}
	m := *c.Start.FC
	m.Features = append([]Feat{}, m.Features...)
	cur := m.build()
	extraFromBSON := false // ExtraMembers currently hold what a BSON decode produced
	for i, op := range c.Ops {
		for r := 0; r < reps(op); r++ {
			tag := fmt.Sprintf("step %d.%d (%s %s %s)", i, r, op.Op, op.Codec, op.Field)
			switch op.Op {
			case "unmarshal":
				src, err := docBytes("fc", op.Codec, op)
				if err != nil {
					return fmt.Errorf("%s: building the document: %v", tag, err)
				}
				in, full := spareBytes(src)
				if err := decodeInto(op.Codec, in, cur); err != nil {
					return fmt.Errorf("%s: decode into a non-empty FeatureCollection: %v", tag, err)
				}
				if err := bytesUntouched(tag, src, full); err != nil {
					return err
				}
				m = *op.FC
				m.Features = append([]Feat{}, m.Features...)
				extraFromBSON = op.Codec == "bson"
			case "marshal":
				if op.Codec != "bson" && extraFromBSON && hasObject(m.Extra) {
					// foreign members that are objects decode from BSON as primitive.D, which
					// encoding/json writes as an array of {Key, Value}: a cross-codec path the
					// property does not speak about (see report); not judged
					stats.Excluded("fc-foreign-object-from-bson-to-json")
					break
				}
				if err := marshalAgrees(tag, op.Codec, cur, func(doc interface{}) error { return shapeFC(doc, m) },
					func(b []byte) error {
						d := &geojson.FeatureCollection{}
						if err := bson.Unmarshal(b, d); err != nil {
							return err
						}
						return eqFC("BSON fc", m, d)
					}); err != nil {
					return err
				}
			case "append":
				cur.Append(op.F.build())
				m.Features = append(m.Features, *op.F)
			case "set":
				nf := op.FC.build()
				switch op.Field {
				case "features":
					cur.Features = nf.Features
					m.Features = append([]Feat{}, op.FC.Features...)
				case "extra":
					cur.ExtraMembers, m.Extra, m.ExtraNil = nf.ExtraMembers, op.FC.Extra, op.FC.ExtraNil
					extraFromBSON = false
				default:
					cur.BBox, m.BBox = nf.BBox, op.FC.BBox
				}
			case "copy":
				cp := *cur
				cur = &cp
			default:
				return fmt.Errorf("bad op %q", op.Op)
			}
			if err := eqFC(tag+": state", m, cur); err != nil {
				return err
			}
		}
	}
	return nil
}

func histGeometry(c HistCase) error {
	if canon(c.Start.G.V) == nil {
		return fmt.Errorf("bad case: start geometry is a top-level empty collection")
	}
	m := canon(c.Start.G.V)
	cur := geojson.NewGeometry(gen.DeepCopy(c.Start.G.V))
	for i, op := range c.Ops {
		for r := 0; r < reps(op); r++ {
			tag := fmt.Sprintf("step %d.%d (%s %s)", i, r, op.Op, op.Codec)
			switch op.Op {
			case "unmarshal":
				if canon(op.G.V) == nil {
					return fmt.Errorf("bad case: top-level empty collection document")
				}
				if geometryCrossKind(cur, op.G.V) && reuseBroken() {
					// only on a tree where the witness of TestKnownGeometryReuse still fails: start from a fresh value
					stats.Excluded("geometry-unmarshal-into-nonempty")
					cur = &geojson.Geometry{}
				}
				src, err := docBytes("geometry", op.Codec, op)
				if err != nil {
					return fmt.Errorf("%s: building the document: %v", tag, err)
				}
				in, full := spareBytes(src)
				if err := decodeInto(op.Codec, in, cur); err != nil {
					return fmt.Errorf("%s: decode into a non-empty Geometry: %v", tag, err)
				}
				if err := bytesUntouched(tag, src, full); err != nil {
					return err
				}
				m = canon(op.G.V)
			case "marshal":
				if op.Codec == "bson" && hasNilMember(cur) && nilMemberBroken() {
					// only on a tree where the witness of TestKnownGeometryReuse still fails (bson.Marshal panicked)
					stats.Excluded("geometry-bson-marshal-nil-member")
					break
				}
				if err := marshalAgrees(tag, op.Codec, cur, func(doc interface{}) error { return shapeGeometry("geometry", doc, m) },
					func(b []byte) error {
						d := &geojson.Geometry{}
						if err := bson.Unmarshal(b, d); err != nil {
							return err
						}
						return decodedGeom(m, d)
					}); err != nil {
					return err
				}
			case "set": // the caller replaces the value wholesale with what NewGeometry gives for another geometry
				if canon(op.G.V) == nil {
					return fmt.Errorf("bad case: top-level empty collection")
				}
				*cur = *geojson.NewGeometry(gen.DeepCopy(op.G.V))
				m = canon(op.G.V)
			case "copy":
				cp := *cur
				cur = &cp
			default:
				return fmt.Errorf("bad op %q", op.Op)
			}
			if err := decodedGeom(m, cur); err != nil {
				return fmt.Errorf("%s: state: %v", tag, err)
			}
			if cur.Type != typeName(m) {
				return fmt.Errorf("%s: state: Type %q, want %q", tag, cur.Type, typeName(m))
			}
		}
	}
	return nil
}

func genHist(t *rapid.T) HistCase {
	c := HistCase{Kind: rapid.SampledFrom([]string{"feature", "feature", "fc", "fc", "geometry", "geometry"}).Draw(t, "hkind")}
	theme := rapid.SampledFrom(seqThemes).Draw(t, "theme")
	gfn := themeGeom(theme)
	geomDoc := func() gen.G {
		g := gfn(t)
		if canon(g) == nil {
			g = orb.Collection{orb.Collection{}}
		}
		return gen.G{V: g}
	}
	fill := func(op *HistOp) {
		switch c.Kind {
		case "feature":
			f := genFeatG(t, gfn)
			op.F = &f
		case "fc":
			fc := genFCG(t, gfn)
			op.FC = &fc
			f := genFeatG(t, gfn)
			op.F = &f
		default:
			op.G = geomDoc()
		}
	}
	fill(&c.Start)
	n := rapid.IntRange(2, 7).Draw(t, "nops")
	for i := 0; i < n; i++ {
		op := HistOp{Op: rapid.SampledFrom([]string{"unmarshal", "unmarshal", "unmarshal", "marshal", "marshal", "set", "set", "copy", "append"}).Draw(t, "op")}
		op.Codec = rapid.SampledFrom([]string{"json", "json.Unmarshal", "bson"}).Draw(t, "hcodec")
		op.Twice = rapid.IntRange(0, 2).Draw(t, "twice") == 0
		if op.Op == "append" && c.Kind != "fc" {
			op.Op = "unmarshal"
		}
		if op.Op == "marshal" && op.Codec == "json.Unmarshal" {
			op.Codec = "json"
		}
		fill(&op)
		switch c.Kind {
		case "feature":
			op.Field = rapid.SampledFrom([]string{"properties", "geometry", "bbox", "id"}).Draw(t, "field")
		case "fc":
			op.Field = rapid.SampledFrom([]string{"features", "extra", "bbox"}).Draw(t, "field")
		}
		c.Ops = append(c.Ops, op)
	}
	return c
}

func classifyHist(c HistCase) {
	stats.Class("kind:history on a reused " + c.Kind)
	un, tw := 0, false
	for _, op := range c.Ops {
		stats.Class("hist.op:" + op.Op)
		if op.Op == "unmarshal" {
			un++
		}
		tw = tw || op.Twice
	}
	if tw {
		stats.Class("hist:same call twice in a row")
	}
	if un >= 1 {
		stats.NonTrivial("hist:" + gen.JSON(c))
		if stats.WantSample("history") {
			stats.Sample("history", c)
		}
	}
}

// TestPropHistory is the rapid property of class L3 (with the L4 byte guard).
func TestPropHistory(t *testing.T) {
	assumptions()
	stats.Assume("histories: decoding into an existing value replaces it; the caller may assign exported fields and copy the struct between calls")
	stats.Assume("out of the statement, excluded and counted (fc-foreign-object-from-bson-to-json): a foreign member that is an object decodes from BSON as primitive.D, which encoding/json writes as an array of {Key, Value}; JSON marshalling of a collection whose ExtraMembers came from a BSON decode and contain an object is not judged")
	stats.Check(t, 6000, 200000, func(rt *rapid.T) {
		c := genHist(rt)
		classifyHist(c)
		stats.InFlight("TestPropHistory", c) // a runaway recursion or a data race kills the process: the driver turns this marker into the replay file
		stats.Try(rt, "TestPropHistory", c, func() error { return annotate(checkHist(c)) })
		stats.InFlightDone()
	})
}

// TestEnumHistory: fixed histories covering every pair of consecutive operations.
func TestEnumHistory(t *testing.T) {
	assumptions()
	p1, p2 := orb.Point{1, 2}, orb.Point{3, 4}
	rich := Feat{ID: Val{T: "string", S: "old"}, Geom: gen.G{V: orb.LineString{p1, p2}}, Props: []KV{{K: "old", V: Val{T: "int", I: 1}}, {K: "both", V: Val{T: "array", A: []Val{{T: "int", I: 1}}}}}, BBox: []gen.F{1, 2, 3, 4}}
	bare := Feat{ID: Val{T: "absent"}, Geom: gen.G{V: nil}, Props: []KV{}, PropsNil: true}
	other := Feat{ID: Val{T: "int", I: 9}, Geom: gen.G{V: orb.Collection{p1, orb.Collection{p2}}}, Props: []KV{{K: "new", V: Val{T: "string", S: "n"}}, {K: "both", V: Val{T: "object", O: []KV{}}}}, BBox: []gen.F{0, 0, 0, 1, 1, 1}}
	feats := []Feat{rich, bare, other}
	fcs := []FColl{
		{Features: []Feat{rich, other}, BBox: []gen.F{1, 2, 3, 4}, Extra: []KV{{K: "old", V: Val{T: "int", I: 1}}}},
		{Features: []Feat{}, Extra: []KV{}, ExtraNil: true},
		{Features: []Feat{bare}, Extra: []KV{{K: "new", V: Val{T: "array", A: []Val{{T: "null"}}}}}},
	}
	geoms := []orb.Geometry{p1, orb.LineString{p1, p2, p1}, orb.LineString{p2}, orb.Polygon{{p1, p2, p1}}, orb.MultiPoint{p1}, orb.Collection{p1, orb.LineString{p1, p2}}, orb.Collection{orb.Collection{}}}
	kinds := []string{"unmarshal", "marshal", "set", "copy"}
	codecs := []string{"json", "json.Unmarshal", "bson"}
	var idx int64
	for _, kind := range []string{"feature", "fc", "geometry"} {
		n := map[string]int{"feature": len(feats), "fc": len(fcs), "geometry": len(geoms)}[kind]
		mk := func(op, codec string, k int, twice bool) HistOp {
			o := HistOp{Op: op, Codec: codec, Twice: twice}
			if op == "marshal" && codec == "json.Unmarshal" {
				o.Codec = "json"
			}
			switch kind {
			case "feature":
				f := feats[k%len(feats)]
				o.F = &f
				o.Field = []string{"properties", "geometry", "bbox", "id"}[k%4]
			case "fc":
				fc := fcs[k%len(fcs)]
				o.FC = &fc
				f := feats[k%len(feats)]
				o.F = &f
				o.Field = []string{"features", "extra", "bbox"}[k%3]
			default:
				o.G = gen.G{V: geoms[k%len(geoms)]}
			}
			return o
		}
		for s := 0; s < n; s++ {
			for _, a := range kinds {
				for _, b := range kinds {
					for ci, codec := range codecs {
						for d := 0; d < n; d++ {
							idx++
							if !stats.Mine(idx) {
								continue
							}
							c := HistCase{Kind: kind, Start: mk("start", "json", s, false)}
							c.Ops = []HistOp{mk(a, codec, d, ci == 1), mk(b, codecs[(ci+1)%3], d+1, ci == 2), mk("marshal", "json", 0, false), mk("unmarshal", codec, s, true), mk("marshal", "bson", 0, false)}
							if kind == "fc" {
								c.Ops = append(c.Ops, mk("append", "json", d, false), mk("marshal", "json", 0, true))
							}
							stats.Eval("TestEnumHistory", 1)
							classifyHist(c)
							stats.InFlight("TestEnumHistory", c) // a runaway recursion or a data race kills the process: the driver turns this marker into the replay file
							stats.TryT(t, "TestEnumHistory", c, func() error { return annotate(checkHist(c)) })
							stats.InFlightDone()
						}
					}
				}
			}
		}
	}
	stats.Subspace("histories: {feature, collection, geometry} x start value x every ordered pair of {unmarshal, marshal, set, copy} x 3 codecs x second document, each followed by marshal / unmarshal twice / marshal", idx, true)
}

// witnessGeometryReuse: decoding into a *geojson.Geometry that already holds the
// other kind of content (Coordinates vs Geometries) must replace it (repaired in
// /repo by 87e76d4). Returns what went wrong, "" if nothing.
func witnessGeometryReuse() string {
	point := []byte(`{"type":"Point","coordinates":[1,2]}`)
	coll := []byte(`{"type":"GeometryCollection","geometries":[{"type":"Point","coordinates":[3,4]}]}`)
	var fails []string
	for _, codec := range []string{"json", "bson"} {
		dec := func(g *geojson.Geometry, doc []byte) error {
			if codec == "json" {
				return g.UnmarshalJSON(doc)
			}
			tmp := &geojson.Geometry{}
			if err := tmp.UnmarshalJSON(doc); err != nil {
				return err
			}
			b, err := bson.Marshal(tmp)
			if err != nil {
				return err
			}
			return bson.Unmarshal(b, g)
		}
		g := &geojson.Geometry{}
		_ = dec(g, point)
		_ = dec(g, coll)
		if err := decodedGeom(orb.Collection{orb.Point{3, 4}}, g); err != nil {
			b, _ := g.MarshalJSON()
			fails = append(fails, fmt.Sprintf("%s: Point then GeometryCollection decoded into one *Geometry: Geometry() = %v, re-marshals as %s", codec, g.Geometry(), b))
		}
		g = &geojson.Geometry{}
		_ = dec(g, coll)
		_ = dec(g, point)
		if b, err := g.MarshalJSON(); err != nil || string(b) != string(point) {
			fails = append(fails, fmt.Sprintf("%s: GeometryCollection then Point decoded into one *Geometry re-marshals as %s", codec, b))
		}
	}
	if len(fails) == 0 {
		return ""
	}
	return "(*geojson.Geometry).UnmarshalJSON/UnmarshalBSON into a non-empty value does not clear the other of Coordinates/Geometries: " + strings.Join(fails, "; ")
}

// witnessBSONNilMember: bson.Marshal of a DECODED *Geometry with a null member
// (what Collection{Collection{}} marshals to) must work and round-trip
// (repaired in /repo by 002be92; it nil-dereferenced in MarshalBSONValue).
func witnessBSONNilMember() string {
	dg, err := geojson.UnmarshalGeometry([]byte(`{"type":"GeometryCollection","geometries":[null]}`))
	if err != nil {
		return "UnmarshalGeometry of a collection with a null member: " + err.Error()
	}
	var b []byte
	if perr := stats.Guard(func() error { var e error; b, e = bson.Marshal(dg); return e }); perr != nil {
		msg := perr.Error()
		if len(msg) > 200 {
			msg = msg[:200]
		}
		return "bson.Marshal of the *Geometry decoded from {\"type\":\"GeometryCollection\",\"geometries\":[null]}: " + msg
	}
	back := &geojson.Geometry{}
	if err := bson.Unmarshal(b, back); err != nil {
		return "bson.Unmarshal of that document: " + err.Error()
	}
	if err := decodedGeom(orb.Collection{nil}, back); err != nil {
		return "BSON round trip of the decoded collection with a null member: " + err.Error()
	}
	return ""
}

var (
	probeOnce                          sync.Once
	reuseBrokenMsg, nilMemberBrokenMsg string
)

func probes() {
	probeOnce.Do(func() {
		reuseBrokenMsg = witnessGeometryReuse()
		nilMemberBrokenMsg = witnessBSONNilMember()
	})
}

// reuseBroken / nilMemberBroken: is this tree one on which the witness still
// fails (a tree older than the repairs)? Only then are the two families kept
// out of the histories, so that the search goes on past the reported defect;
// on the repaired tree nothing is excluded.
func reuseBroken() bool     { probes(); return reuseBrokenMsg != "" }
func nilMemberBroken() bool { probes(); return nilMemberBrokenMsg != "" }

// TestKnownGeometryReuse runs the two witnesses as regression cases: a failure
// is a VIOLATION (unless known_findings.json lists the key with status "known",
// in which case a KNOWN-FINDING line is printed).
func TestKnownGeometryReuse(t *testing.T) {
	if i, _ := stats.Shard(); i != 0 {
		return
	}
	probes()
	for _, w := range []struct{ key, what string }{
		{"geometry-unmarshal-into-nonempty", reuseBrokenMsg},
		{"geometry-bson-marshal-nil-member", nilMemberBrokenMsg},
	} {
		stats.Eval("TestKnownGeometryReuse", 1)
		if w.what == "" {
			continue
		}
		if _, ok := kf.Get("C02", w.key); ok {
			stats.Known(w.key, w.what)
			continue
		}
		p := stats.RecordFailure("TestKnownGeometryReuse", map[string]string{"witness": w.key}, fmt.Errorf("%s", w.what))
		t.Errorf("TestKnownGeometryReuse: %s (replay %s)", w.what, p)
	}
}

// ---------------------------------------------------------------- L4: one input, many users

// SharedCase: one collection value and its two encodings used by N goroutines at once.
type SharedCase struct {
	FC FColl `json:"fc"`
	N  int   `json:"n"`
}

func checkShared(c SharedCase, rounds int) error {
	in, pristine := c.FC.build(), c.FC.build()
	srcJ, err := json.Marshal(c.FC.build())
	if err != nil {
		return err
	}
	srcB, err := bson.Marshal(c.FC.build())
	if err != nil {
		return err
	}
	jb, fullJ := spareBytes(srcJ)
	bb, fullB := spareBytes(srcB)
	// once on one goroutine first: a marshaller that writes into its argument is reported as such
	// (and not through the runtime's fatal "concurrent map writes")
	if _, err := in.MarshalJSON(); err != nil {
		return err
	}
	if _, err := bson.Marshal(in); err != nil {
		return err
	}
	if !reflect.DeepEqual(in, pristine) {
		return fmt.Errorf("marshalling modified the collection it was given: %s became %s", dumpFC(pristine), dumpFC(in))
	}
	err = stats.ParallelErr(c.N, rounds, func(i int) error {
		switch i % 4 {
		case 0:
			b, err := in.MarshalJSON()
			if err != nil {
				return err
			}
			doc, err := parseJSON(b)
			if err != nil {
				return err
			}
			return shapeFC(doc, c.FC)
		case 1:
			b, err := bson.Marshal(in)
			if err != nil {
				return err
			}
			d := &geojson.FeatureCollection{}
			if err := bson.Unmarshal(b, d); err != nil {
				return err
			}
			return eqFC("BSON fc of the shared value", c.FC, d)
		case 2:
			d, err := geojson.UnmarshalFeatureCollection(jb)
			if err != nil {
				return err
			}
			return eqFC("JSON decode of the shared bytes", c.FC, d)
		}
		d := &geojson.FeatureCollection{}
		if err := bson.Unmarshal(bb, d); err != nil {
			return err
		}
		return eqFC("BSON decode of the shared bytes", c.FC, d)
	})
	if err != nil {
		return err
	}
	if !reflect.DeepEqual(in, pristine) {
		return fmt.Errorf("the collection shared by %d goroutines was modified by marshalling it: %s became %s", c.N, dumpFC(pristine), dumpFC(in))
	}
	if err := bytesUntouched("JSON bytes shared by the goroutines", srcJ, fullJ); err != nil {
		return err
	}
	return bytesUntouched("BSON bytes shared by the goroutines", srcB, fullB)
}

// TestPropSharedInput: the same argument object across concurrent callers.
func TestPropSharedInput(t *testing.T) {
	assumptions()
	stats.Check(t, 400, 10000, func(rt *rapid.T) {
		c := SharedCase{FC: genFC(rt), N: rapid.IntRange(2, 8).Draw(rt, "goroutines")}
		stats.Class("kind:shared input, concurrent users")
		if len(c.FC.Features) > 0 {
			stats.NonTrivial("shared:" + gen.JSON(c))
		}
		stats.InFlight("TestPropSharedInput", c) // a data race on a shared map kills the process: the driver turns this marker into the replay file
		stats.Try(rt, "TestPropSharedInput", c, func() error { return checkShared(c, 12) })
		stats.InFlightDone()
	})
}

// TestEnumMustDefaults: Properties.MustBool/MustInt/MustFloat64/MustString with
// the variadic default spread from an existing slice that has spare capacity;
// model = the documented lookup (value of the right type, else panic if present,
// else the first default, else panic); neither the map nor the slice changes.
func TestEnumMustDefaults(t *testing.T) {
	vals := []interface{}{nil, true, false, 0, 7, -2.5, 3.0, "s", "", []interface{}{1}, map[string]interface{}{}}
	var idx int64
	for vi, v := range vals {
		for _, present := range []bool{true, false} {
			for nd := 0; nd <= 2; nd++ {
				for fn := 0; fn < 4; fn++ {
					idx++
					if !stats.Mine(idx) {
						continue
					}
					stats.Eval("TestEnumMustDefaults", 1)
					p := geojson.Properties{"other": 1}
					if present {
						p["k"] = v
					}
					snap := p.Clone()
					var got, want interface{}
					var gotPanic, wantPanic bool
					call := func(f func()) {
						defer func() {
							if recover() != nil {
								gotPanic = true
							}
						}()
						f()
					}
					cur := interface{}(nil)
					if present {
						cur = v
					}
					var spareOK func() bool
					switch fn {
					case 0:
						full := []bool{true, false, true, false}
						defs := full[:nd:4]
						call(func() { got = p.MustBool("k", defs...) })
						spareOK = func() bool { return reflect.DeepEqual(full, []bool{true, false, true, false}) }
						if b, ok := cur.(bool); ok {
							want = b
						} else if cur != nil || nd == 0 {
							wantPanic = true
						} else {
							want = true
						}
					case 1:
						full := []int{11, 12, 13, 14}
						defs := full[:nd:4]
						call(func() { got = p.MustInt("k", defs...) })
						spareOK = func() bool { return reflect.DeepEqual(full, []int{11, 12, 13, 14}) }
						switch x := cur.(type) {
						case int:
							want = x
						case float64:
							want = int(x)
						default:
							if cur != nil || nd == 0 {
								wantPanic = true
							} else {
								want = 11
							}
						}
					case 2:
						full := []float64{1.5, 2.5, 3.5, 4.5}
						defs := full[:nd:4]
						call(func() { got = p.MustFloat64("k", defs...) })
						spareOK = func() bool { return reflect.DeepEqual(full, []float64{1.5, 2.5, 3.5, 4.5}) }
						switch x := cur.(type) {
						case float64:
							want = x
						case int:
							want = float64(x)
						default:
							if cur != nil || nd == 0 {
								wantPanic = true
							} else {
								want = 1.5
							}
						}
					default:
						full := []string{"d1", "d2", "d3", "d4"}
						defs := full[:nd:4]
						call(func() { got = p.MustString("k", defs...) })
						spareOK = func() bool { return reflect.DeepEqual(full, []string{"d1", "d2", "d3", "d4"}) }
						if s, ok := cur.(string); ok {
							want = s
						} else if cur != nil || nd == 0 {
							wantPanic = true
						} else {
							want = "d1"
						}
					}
					c := map[string]interface{}{"value": vi, "present": present, "defaults": nd, "fn": fn}
					stats.TryT(t, "TestEnumMustDefaults", c, func() error {
						if gotPanic != wantPanic || (!wantPanic && got != want) {
							return fmt.Errorf("Must%d(%v present=%v, %d defaults): got %v panic=%v, want %v panic=%v", fn, v, present, nd, got, gotPanic, want, wantPanic)
						}
						if !reflect.DeepEqual(p, snap) {
							return fmt.Errorf("Must%d changed the Properties map: %v became %v", fn, snap, p)
						}
						if !spareOK() {
							return fmt.Errorf("Must%d changed the slice its defaults were spread from", fn)
						}
						return nil
					})
				}
			}
		}
	}
	stats.Subspace("Properties.MustBool/Int/Float64/String: 11 stored values x present/absent x 0..2 defaults spread from a slice", idx, true)
}
