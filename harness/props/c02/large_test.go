package c02

// Round L, class L1: the size ladder. Every size dimension of a GeoJSON value
// is driven through the rungs L-2 .. L+3 and 1.5*L+1 around every power of two
// and of ten with STRUCTURED inputs (long lists, single-child nesting chains,
// one enormous member among small ones in first / middle / last position). The
// oracle is the package's own one (round trip by bits, RFC 7946 shape of the
// text, JSON fixed point, BSON) in its "lite" form, which evaluates every
// oracle once instead of through every twin entry point; all of it is O(n).
//
// Where each ladder stops, and why, is stated in rule.txt and in ladderTops.

import (
	"fmt"
	"strings"
	"testing"

	"github.com/paulmach/orb"
	"pgregory.net/rapid"

	"verifharness/internal/gen"
	"verifharness/internal/stats"
)

// LargeCase describes one big input; buildLarge rebuilds it deterministically.
type LargeCase struct {
	Dim string `json:"dim"`
	N   int    `json:"n"`
	Pos string `json:"pos,omitempty"` // giant.*: first | middle | last
}

// ladder returns {L-2 .. L+3, 1.5*L+1 : L = 2^k, k = 6..} ∪ {L-2 .. L+3 : L = 10^k, k = 2..} up to max.
func ladder(max int) []int {
	seen := map[int]bool{}
	var out []int
	add := func(v int) {
		if v >= 1 && v <= max && !seen[v] {
			seen[v] = true
			out = append(out, v)
		}
	}
	for k := 6; k <= 26; k++ {
		for d := -2; d <= 3; d++ {
			add(1<<uint(k) + d)
		}
		add(1<<uint(k) + 1<<uint(k-1) + 1)
	}
	for p := 100; p <= 100000000; p *= 10 {
		for d := -2; d <= 3; d++ {
			add(p + d)
		}
	}
	return out
}

// neighbourhoods is the sparse ladder of the quick tier for the dimensions that
// do not get the full one: L-2..L+3 and 1.5L+1 around 64, 512, 1024, 2048, 4096,
// and `at65536` around 65536.
func neighbourhoods(max int, at65536 []int) []int {
	var out []int
	for _, l := range []int{64, 512, 1024, 2048, 4096} {
		for d := -2; d <= 3; d++ {
			if l+d <= max {
				out = append(out, l+d)
			}
		}
		if l+l/2+1 <= max {
			out = append(out, l+l/2+1)
		}
	}
	for _, n := range at65536 {
		if n <= max {
			out = append(out, n)
		}
	}
	return out
}

func largePoint(i int) orb.Point {
	// varied values: short decimals, 17-digit values, exponent forms, -0
	switch i % 7 {
	case 0:
		return orb.Point{float64(i) * 0.1, -float64(i) / 3}
	case 1:
		return orb.Point{float64(i), float64(i%2) * 2}
	case 2:
		return orb.Point{1e-7 * float64(i+1), 1e21 + float64(i)*1e6}
	case 3:
		return orb.Point{-float64(i) * 0.75, float64(i) * 123456789.125}
	}
	return orb.Point{float64(i%360) - 180, float64(i%170) - 85.5}
}

func largePts(n, off int) []orb.Point {
	ps := make([]orb.Point, n)
	for i := range ps {
		ps[i] = largePoint(i + off)
	}
	return ps
}

var largeAlphabet = []string{"a", "é", "<", "\"", "\\", "\n", "😀", "\x00", "日", "z", ".", "$", "．", "＄", " ", "/"}

// largeString has n runes cycling through ASCII, multi-byte, escaped and control characters.
func largeString(n int, key bool) string {
	var sb strings.Builder
	sb.Grow(n * 2)
	for i := 0; i < n; i++ {
		s := largeAlphabet[(i*7+i/16)%len(largeAlphabet)]
		if key && s == "\x00" {
			s = "0"
		}
		sb.WriteString(s)
	}
	return sb.String()
}

func smallFeat(i int) Feat {
	return Feat{ID: Val{T: "int", I: int64(i)}, Geom: gen.G{V: largePoint(i)}, Props: []KV{{K: "i", V: Val{T: "int", I: int64(i)}}}}
}

func chainVal(kind string, d int) Val {
	v := Val{T: "string", S: "bottom"}
	for i := 0; i < d; i++ {
		k := kind
		if kind == "mixed" {
			k = []string{"object", "array"}[i%2]
		}
		if k == "object" {
			v = Val{T: "object", O: []KV{{K: "a", V: v}}}
		} else {
			v = Val{T: "array", A: []Val{v}}
		}
	}
	return v
}

// largeDims lists the size dimensions: cheap = cost per element of the lite
// oracle is a few microseconds or less.
var largeDims = []string{
	"vertices.linestring", "vertices.multipoint", "vertices.ring", "vertices.polygon-ring",
	"members.multilinestring", "members.polygon-rings", "members.multipolygon", "members.collection",
	"features", "properties", "foreign-members", "array-elements",
	"key-length", "string-length", "id-length",
	"depth.object", "depth.array", "depth.mixed", "depth.collection",
	"giant.collection", "giant.multilinestring", "giant.features", "giant.properties",
}

func buildLarge(lc LargeCase) (Case, error) {
	n := lc.N
	if n < 1 {
		return Case{}, fmt.Errorf("bad large case: n = %d", n)
	}
	geomCase := func(g orb.Geometry) (Case, error) { return Case{Kind: "geometry", G: gen.G{V: g}}, nil }
	featCase := func(f Feat) (Case, error) {
		if f.Props == nil {
			f.Props = []KV{}
		}
		return Case{Kind: "feature", F: &f}, nil
	}
	pt := Feat{ID: Val{T: "absent"}, Geom: gen.G{V: orb.Point{1, 2}}}
	switch lc.Dim {
	case "vertices.linestring":
		return geomCase(orb.LineString(largePts(n, 0)))
	case "vertices.multipoint":
		return geomCase(orb.MultiPoint(largePts(n, 3)))
	case "vertices.ring":
		return geomCase(orb.Ring(largePts(n, 5)))
	case "vertices.polygon-ring":
		return geomCase(orb.Polygon{orb.Ring(largePts(4, 0)), orb.Ring(largePts(n, 1))})
	case "members.multilinestring":
		m := make(orb.MultiLineString, n)
		for i := range m {
			m[i] = orb.LineString(largePts(1+i%3, i))
		}
		return geomCase(m)
	case "members.polygon-rings":
		p := make(orb.Polygon, n)
		for i := range p {
			p[i] = orb.Ring(largePts(i%3, i))
		}
		return geomCase(p)
	case "members.multipolygon":
		m := make(orb.MultiPolygon, n)
		for i := range m {
			m[i] = orb.Polygon{orb.Ring(largePts(1+i%2, i))}
		}
		return geomCase(m)
	case "members.collection":
		c := make(orb.Collection, n)
		for i := range c {
			switch i % 4 {
			case 0:
				c[i] = largePoint(i)
			case 1:
				c[i] = orb.LineString(largePts(2, i))
			case 2:
				c[i] = orb.Bound{Min: largePoint(i), Max: largePoint(i + 1)}
			default:
				c[i] = orb.MultiPoint{}
			}
		}
		return geomCase(c)
	case "features":
		fc := FColl{Features: make([]Feat, n), Extra: []KV{}}
		for i := range fc.Features {
			fc.Features[i] = smallFeat(i)
			if i%5 == 0 {
				fc.Features[i].Props = []KV{}
			}
		}
		return Case{Kind: "fc", FC: &fc}, nil
	case "properties":
		f := pt
		f.Props = make([]KV, n)
		for i := range f.Props {
			f.Props[i] = KV{K: fmt.Sprintf("k%d", i), V: Val{T: "int", I: int64(i)}}
			if i%3 == 1 {
				f.Props[i].V = Val{T: "string", S: fmt.Sprintf("v%d", i)}
			}
		}
		return featCase(f)
	case "foreign-members":
		fc := FColl{Features: []Feat{smallFeat(0)}, Extra: make([]KV, n)}
		for i := range fc.Extra {
			fc.Extra[i] = KV{K: fmt.Sprintf("x%d", i), V: Val{T: "float", F: gen.F(float64(i) / 8)}}
		}
		return Case{Kind: "fc", FC: &fc}, nil
	case "array-elements":
		a := make([]Val, n)
		for i := range a {
			a[i] = Val{T: "int", I: int64(i)}
		}
		f := pt
		f.Props = []KV{{K: "list", V: Val{T: "array", A: a}}, {K: "after", V: Val{T: "bool", B: true}}}
		return featCase(f)
	case "key-length":
		f := pt
		f.Props = []KV{{K: "a", V: Val{T: "int", I: 1}}, {K: largeString(n, true), V: Val{T: "int", I: 2}}, {K: "z", V: Val{T: "int", I: 3}}}
		return featCase(f)
	case "string-length":
		f := pt
		f.Props = []KV{{K: "a", V: Val{T: "int", I: 1}}, {K: "s", V: Val{T: "string", S: largeString(n, false)}}, {K: "z", V: Val{T: "int", I: 3}}}
		return featCase(f)
	case "id-length":
		f := pt
		f.ID = Val{T: "string", S: largeString(n, false)}
		return featCase(f)
	case "depth.object", "depth.array", "depth.mixed":
		f := pt
		f.Props = []KV{{K: "deep", V: chainVal(strings.TrimPrefix(lc.Dim, "depth."), n)}, {K: "flat", V: Val{T: "int", I: 1}}}
		return featCase(f)
	case "depth.collection":
		var g orb.Geometry = orb.LineString(largePts(2, 0))
		for i := 0; i < n; i++ {
			if i%2 == 0 {
				g = orb.Collection{g}
			} else {
				g = orb.Collection{largePoint(i), g}
			}
		}
		return geomCase(g)
	}
	// one enormous member among eight small ones
	pos := map[string]int{"first": 0, "middle": 4, "last": 8}
	at, ok := pos[lc.Pos]
	if !ok {
		return Case{}, fmt.Errorf("bad large case: pos %q", lc.Pos)
	}
	switch lc.Dim {
	case "giant.collection":
		c := make(orb.Collection, 9)
		for i := range c {
			c[i] = orb.LineString(largePts(2, i))
		}
		c[at] = orb.LineString(largePts(n, 0))
		return geomCase(c)
	case "giant.multilinestring":
		m := make(orb.MultiLineString, 9)
		for i := range m {
			m[i] = orb.LineString(largePts(2, i))
		}
		m[at] = orb.LineString(largePts(n, 0))
		return geomCase(m)
	case "giant.features":
		fc := FColl{Features: make([]Feat, 9), Extra: []KV{}}
		for i := range fc.Features {
			fc.Features[i] = smallFeat(i)
		}
		fc.Features[at].Geom = gen.G{V: orb.MultiPoint(largePts(n, 0))}
		fc.Features[at].Props = []KV{{K: "big", V: Val{T: "string", S: largeString(n, false)}}}
		return Case{Kind: "fc", FC: &fc}, nil
	case "giant.properties":
		f := pt
		f.Props = make([]KV, 9)
		for i := range f.Props {
			f.Props[i] = KV{K: fmt.Sprintf("k%d", i), V: Val{T: "int", I: int64(i)}}
		}
		a := make([]Val, n)
		for i := range a {
			a[i] = Val{T: "float", F: gen.F(float64(i) * 0.5)}
		}
		f.Props[at].V = Val{T: "array", A: a}
		return featCase(f)
	}
	return Case{}, fmt.Errorf("bad large case: dimension %q", lc.Dim)
}

// checkLarge builds and decides one large case with the lite oracle.
func checkLarge(lc LargeCase, o *checkOpt) error {
	c, err := buildLarge(lc)
	if err != nil {
		return err
	}
	if o == nil {
		o = &checkOpt{}
	}
	o.lite = true
	return checkCaseOpt(c, o)
}

// rungsFor returns the rungs of a dimension for the tier (elements; for
// *-length runes; for depth.* levels). The reasons for every stop are in rule.txt.
func rungsFor(dim string, thorough bool) []int {
	switch {
	case dim == "vertices.linestring":
		if thorough {
			return ladder(1<<19 + 3)
		}
		return append(ladder(1<<14+3), 32767, 32770, 65537, 65539, 1<<17+3) // the one full ladder of the quick tier
	case strings.HasPrefix(dim, "vertices."), dim == "properties", dim == "foreign-members", dim == "array-elements":
		if thorough {
			if strings.HasPrefix(dim, "vertices.") {
				return ladder(1<<19 + 3)
			}
			return ladder(1<<17 + 3)
		}
		return neighbourhoods(1<<17, []int{65534, 65537, 65539})
	case strings.HasSuffix(dim, "-length"):
		if thorough {
			return ladder(1<<24 + 3)
		}
		return append(ladder(1<<18+3), 1<<20+3)
	case dim == "depth.collection": // cost grows with the square of the depth
		if thorough {
			return ladder(2048 + 3)
		}
		return append(ladder(256+128+1), 510, 513, 515)
	case strings.HasPrefix(dim, "depth."):
		if thorough {
			return ladder(8192 + 3)
		}
		return ladder(4096 + 3)
	}
	// members.*, features: 30-80 microseconds per element
	if thorough {
		return ladder(1<<17 + 3)
	}
	return neighbourhoods(1<<17, []int{65539})
}

func classLarge(lc LargeCase, o *checkOpt) {
	stats.Class("large:" + lc.Dim)
	switch {
	case o.jsonBytes >= 1<<24:
		stats.Class("large:JSON document >= 16 MiB")
	case o.jsonBytes >= 1<<20:
		stats.Class("large:JSON document >= 1 MiB")
	case o.jsonBytes >= 1<<16:
		stats.Class("large:JSON document >= 64 KiB")
	}
	switch {
	case o.bsonBytes >= 1<<24:
		stats.Class("large:BSON document >= 16 MiB")
	case o.bsonBytes >= 1<<20:
		stats.Class("large:BSON document >= 1 MiB")
	case o.bsonBytes >= 1<<16:
		stats.Class("large:BSON document >= 64 KiB")
	}
}

// TestEnumLarge runs the ladder.
func TestEnumLarge(t *testing.T) {
	assumptions()
	stats.Assume("size ladder: nested geometry collections stop at depth 2051 (marshal and decode cost grows with the square of the depth through encoding/json's nested Marshaler protocol: 1 s at 2049, 10 s at 4097) and encoding/json refuses more than 10000 nesting levels (collection depth >= 5001 on marshal, property depth >= 9998 on decode), so property nesting stops at 8195")
	var idx, size int64
	run := func(lc LargeCase) {
		idx++
		size++
		if !stats.Mine(idx) {
			return
		}
		stats.Eval("TestEnumLarge", 1)
		stats.NonTrivial("large:" + gen.JSON(lc))
		o := &checkOpt{}
		stats.InFlight("TestEnumLarge", lc) // a runaway recursion or a data race kills the process: the driver turns this marker into the replay file
		stats.TryT(t, "TestEnumLarge", lc, func() error { return checkLarge(lc, o) })
		stats.InFlightDone()
		classLarge(lc, o)
		if lc.N >= 65536 && stats.WantSample("large") {
			stats.Sample("large", lc)
		}
	}
	for _, dim := range largeDims {
		if strings.HasPrefix(dim, "giant.") {
			big := []int{32768 + 1}
			if stats.Thorough() {
				big = []int{65536 + 1, 1<<18 + 3}
			}
			for _, n := range big {
				for _, pos := range []string{"first", "middle", "last"} {
					run(LargeCase{Dim: dim, N: n, Pos: pos})
				}
			}
			continue
		}
		for _, n := range rungsFor(dim, stats.Thorough()) {
			run(LargeCase{Dim: dim, N: n})
		}
	}
	if stats.Thorough() {
		// the deepest collections one case can afford (depth 4999 still marshals, but its 10000
		// nesting levels are more than encoding/json decodes: beyond the ladder, see TestEnumBeyondJSONDepth)
		for _, n := range []int{4096, 4097} {
			run(LargeCase{Dim: "depth.collection", N: n})
		}
	}
	stats.Subspace("size ladder L-2..L+3, 1.5L+1 around 2^k and 10^k over 23 size dimensions (tops in rule.txt)", size, true)
}

// TestEnumBeyondJSONDepth: past encoding/json's 10000-level limit the codecs
// must fail with an error (or still round-trip), never return a wrong value.
func TestEnumBeyondJSONDepth(t *testing.T) {
	if !stats.Thorough() {
		return
	}
	cases := []LargeCase{{Dim: "depth.object", N: 10001}, {Dim: "depth.array", N: 9998}, {Dim: "depth.collection", N: 4999}, {Dim: "depth.collection", N: 5001}}
	for i, lc := range cases {
		if !stats.Mine(int64(i)) {
			continue
		}
		stats.Eval("TestEnumBeyondJSONDepth", 1)
		stats.Class("large:beyond the JSON nesting limit")
		err := stats.Guard(func() error { return checkLarge(lc, nil) })
		if err == nil {
			continue
		}
		msg := err.Error()
		if strings.Contains(msg, "exceeded max depth") && !strings.Contains(msg, "panic:") {
			continue // refused with the standard library's error
		}
		stats.TryT(t, "TestEnumBeyondJSONDepth", lc, func() error { return err })
	}
}

// genLargeCase: the rare "large" class of the random generator (rungs up to 2051).
func genLargeCase(t *rapid.T) Case {
	dim := rapid.SampledFrom(largeDims).Draw(t, "largedim")
	top := 2051
	if dim == "depth.collection" {
		top = 259
	}
	lc := LargeCase{Dim: dim, N: rapid.SampledFrom(ladder(top)).Draw(t, "rung")}
	if strings.HasPrefix(dim, "giant.") {
		lc.Pos = rapid.SampledFrom([]string{"first", "middle", "last"}).Draw(t, "pos")
	}
	return Case{Kind: "large", Large: &lc}
}
