package c14

// Inputs far below the scale the main generator produces: geometry extents and
// segment lengths log-uniform from about one ulp of the tile fraction up to one
// tile, at every zoom, placed in tile interiors, on tile centres and straddling
// tile edges and corners; lines densified into very many micro steps that cross
// tile boundaries; micro polygons and rings; point / multi-point clusters;
// vertices that differ by a few ulps of longitude / latitude.
//
// The model decides them like everything else (required = the geometry meets
// the tile shrunk by 1e-6; allowed = it meets the tile grown by 1e-6) plus the
// vertex rule (model.verts): a geometry whose extent is at least certain(z)
// covers, for each of its vertices, a tile within 1e-6 tile of that vertex.

import (
	"math"

	"github.com/paulmach/orb"
	"pgregory.net/rapid"

	"verifharness/internal/gen"
)

// DenseLine is the compact form of a line string of N+1 vertices interpolated
// linearly (in lon/lat) from A to B: vertex i = A + (B-A)*i/N, vertex N = B.
type DenseLine struct {
	A gen2P `json:"a"`
	B gen2P `json:"b"`
	N int   `json:"n"`
}

func (d DenseLine) line() orb.LineString {
	a, b := d.A.pt(), d.B.pt()
	n := d.N
	if n < 1 {
		n = 1
	}
	ls := make(orb.LineString, n+1)
	for i := 0; i < n; i++ {
		f := float64(i) / float64(n)
		ls[i] = orb.Point{a[0] + (b[0]-a[0])*f, a[1] + (b[1]-a[1])*f}
	}
	ls[n] = b
	return ls
}

// anchor draws a position in tile space: in a tile interior, on a tile centre,
// on a vertical / horizontal tile edge or on a tile corner (edges and corners
// only where they are inside the domain, i.e. zoom >= 1).
func microAnchor(t *rapid.T, s tspace) (x, y float64, where string) {
	x, y = s.centre(t, 0)
	mode := rapid.IntRange(0, 9).Draw(t, "anchor")
	if s.z == 0 && mode >= 4 && mode != 9 {
		mode = 0
	}
	kx := math.Max(1, math.Min(s.n-1, math.Round(x)))
	ky := math.Max(math.Ceil(s.loy), math.Min(math.Floor(s.hiy), math.Round(y)))
	if s.z >= 1 && rapid.IntRange(0, 2).Draw(t, "aeq") == 0 {
		ky = s.n / 2 // the equator: the one row boundary orb projects exactly
	}
	switch {
	case mode < 4:
		return x, y, "interior"
	case mode < 6:
		return kx, y, "edge-x"
	case mode < 7:
		return x, ky, "edge-y"
	case mode < 9:
		return kx, ky, "corner"
	}
	cx, cy := s.clamp(math.Floor(x)+0.5, math.Floor(y)+0.5)
	return cx, cy, "centre"
}

// microExtent: log-uniform from ~1 ulp of the largest tile fraction of the zoom
// (but not below 1e-15) to 1 tile.
func microExtent(t *rapid.T, s tspace) float64 {
	lo := math.Max(1e-15, math.Ldexp(s.n, -52))
	return logUniform(t, lo, 1, "mext")
}

func genMicro(t *rapid.T, s tspace) (orb.Geometry, string) {
	ax, ay, where := microAnchor(t, s)
	e := microExtent(t, s)
	off := func() (float64, float64) {
		return ax + e*rapid.Float64Range(-0.5, 0.5).Draw(t, "mox"), ay + e*rapid.Float64Range(-0.5, 0.5).Draw(t, "moy")
	}
	vert := func() orb.Point {
		x, y := off()
		x, y = s.clamp(x, y)
		return unproject(x, y, s.z)
	}
	size := "<1e-9"
	switch {
	case e >= 1e-3:
		size = ">=1e-3"
	case e >= 1e-6:
		size = "1e-6..1e-3"
	case e >= 1e-9:
		size = "1e-9..1e-6"
	}
	suffix := "/" + where + "/" + size
	switch k := rapid.IntRange(0, 11).Draw(t, "mkind"); {
	case k < 4:
		ls := make(orb.LineString, rapid.IntRange(2, 6).Draw(t, "mnv"))
		for i := range ls {
			ls[i] = vert()
		}
		return ls, "micro/line" + suffix
	case k < 7:
		// star-shaped micro ring around the anchor
		nv := rapid.IntRange(3, 8).Draw(t, "mpnv")
		unit := rotateStart(t, starUnit(t, nv))
		r := make(orb.Ring, 0, nv+1)
		for _, u := range unit {
			x, y := s.clamp(ax+0.5*e*u[0], ay+0.5*e*u[1])
			r = append(r, unproject(x, y, s.z))
		}
		r = append(r, r[0])
		if k == 6 {
			return r, "micro/ring" + suffix
		}
		return orb.Polygon{r}, "micro/polygon" + suffix
	case k < 8:
		mp := make(orb.MultiPoint, rapid.IntRange(1, 8).Draw(t, "mnp"))
		for i := range mp {
			mp[i] = vert()
		}
		return mp, "micro/multipoint" + suffix
	case k < 9:
		return vert(), "micro/point" + suffix
	case k < 10:
		a, b := vert(), vert()
		return orb.Bound{Min: orb.Point{math.Min(a[0], b[0]), math.Min(a[1], b[1])}, Max: orb.Point{math.Max(a[0], b[0]), math.Max(a[1], b[1])}}, "micro/bound" + suffix
	case k < 11:
		// vertices that differ by a few ulps of longitude / latitude
		x, y := s.clamp(ax, ay)
		base := unproject(x, y, s.z)
		ls := make(orb.LineString, rapid.IntRange(2, 5).Draw(t, "unv"))
		for i := range ls {
			p := base
			for d := 0; d < 2; d++ {
				steps := int(logUniform(t, 1, 1e5, "ulps")) * rapid.SampledFrom([]int{-1, 0, 1}).Draw(t, "usgn")
				dir := math.Inf(1)
				if steps < 0 {
					dir, steps = math.Inf(-1), -steps
				}
				if steps <= 64 {
					for j := 0; j < steps; j++ {
						p[d] = math.Nextafter(p[d], dir)
					}
				} else {
					u := math.Nextafter(math.Abs(p[d])+1e-300, math.Inf(1)) - (math.Abs(p[d]) + 1e-300)
					p[d] += math.Copysign(float64(steps)*u, dir)
				}
			}
			if !inLonLatDomain(p) {
				p = base
			}
			ls[i] = p
		}
		return ls, "micro/ulp-line/" + where
	}
	// a collection of a micro line, its first vertex and a micro polygon at the same anchor
	a, b, c := vert(), vert(), vert()
	coll := orb.Collection{orb.LineString{a, b}, a, orb.MultiPoint{b, c}}
	if a != b && b != c && a != c {
		coll = append(coll, orb.Polygon{orb.Ring{a, b, c, a}})
	}
	return coll, "micro/collection" + suffix
}

// genDense draws a densified line: N micro steps of length s through an anchor,
// so that the line crosses the tile boundaries at the anchor (and, when it is
// long enough, others).
func genDense(t *rapid.T, s tspace, maxN int) (DenseLine, string) {
	ax, ay, where := microAnchor(t, s)
	n := int(logUniform(t, 1000, float64(maxN), "dn"))
	lo := math.Max(1e-13, math.Ldexp(s.n, -51))
	step := logUniform(t, lo, 1e-4, "dstep")
	length := math.Min(step*float64(n), math.Min(3, 0.4*s.n))
	var dx, dy float64
	switch rapid.IntRange(0, 5).Draw(t, "ddir") {
	case 0:
		dx = 1
	case 1:
		dy = 1
	case 2:
		dx, dy = math.Sqrt2/2, math.Sqrt2/2
	default:
		phi := rapid.Float64Range(0, 2*math.Pi).Draw(t, "dphi")
		dx, dy = math.Cos(phi), math.Sin(phi)
	}
	// the anchor is somewhere along the line, not always in the middle
	f := rapid.Float64Range(0.05, 0.95).Draw(t, "dfrac")
	x0, y0 := s.clamp(ax-dx*length*f, ay-dy*length*f)
	x1, y1 := s.clamp(ax+dx*length*(1-f), ay+dy*length*(1-f))
	a, b := unproject(x0, y0, s.z), unproject(x1, y1, s.z)
	name := "step>=1e-9"
	if length/float64(n) < 1e-9 {
		name = "step<1e-9"
	}
	return DenseLine{A: gen2P{gen.F(a[0]), gen.F(a[1])}, B: gen2P{gen.F(b[0]), gen.F(b[1])}, N: n}, "dense/" + where + "/" + name
}
