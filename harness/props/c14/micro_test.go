package c14

// Inputs far below the scale the main generator produces: geometry extents and
// segment lengths log-uniform from about one ulp of the tile fraction up to one
// tile, at every zoom, placed in tile interiors, on tile centres and straddling
// tile edges and corners; lines densified into very many micro steps that cross
// tile boundaries; micro polygons and rings; point / multi-point clusters;
// vertices that differ by a few ulps of longitude / latitude.
//
// The model decides them like everything else (required = the geometry meets
// the tile shrunk by 1e-6; allowed = it meets the tile grown by 1e-6) plus the
// vertex rule (model.verts): a geometry whose extent is at least certain(z)
// covers, for each of its vertices, a tile within 1e-6 tile of that vertex.

import (
	"math"

	"github.com/paulmach/orb"
	"pgregory.net/rapid"

	"verifharness/internal/gen"
)

// DenseLine is the compact form of a line string of N+1 vertices interpolated
// linearly (in lon/lat) from A to B: vertex i = A + (B-A)*i/N, vertex N = B.
type DenseLine struct {
	A gen2P `json:"a"`
	B gen2P `json:"b"`
	N int   `json:"n"`
}

func (d DenseLine) line() orb.LineString {
	a, b := d.A.pt(), d.B.pt()
	n := d.N
	if n < 1 {
		n = 1
	}
	ls := make(orb.LineString, n+1)
	for i := 0; i < n; i++ {
		f := float64(i) / float64(n)
		ls[i] = orb.Point{a[0] + (b[0]-a[0])*f, a[1] + (b[1]-a[1])*f}
	}
	ls[n] = b
	return ls
}

// anchor draws a position in tile space: in a tile interior, on a tile centre,
// on a vertical / horizontal tile edge or on a tile corner (edges and corners
// only where they are inside the domain, i.e. zoom >= 1).
func microAnchor(t *rapid.T, s tspace) (x, y float64, where string) {
	x, y = s.centre(t, 0)
	mode := rapid.IntRange(0, 9).Draw(t, "anchor")
	if s.z == 0 && mode >= 4 && mode != 9 {
		mode = 0
	}
	kx := math.Max(1, math.Min(s.n-1, math.Round(x)))
	ky := math.Max(math.Ceil(s.loy), math.Min(math.Floor(s.hiy), math.Round(y)))
	if s.z >= 1 && rapid.IntRange(0, 2).Draw(t, "aeq") == 0 {
		ky = s.n / 2 // the equator: the one row boundary orb projects exactly
	}
	switch {
	case mode < 4:
		return x, y, "interior"
	case mode < 6:
		return kx, y, "edge-x"
	case mode < 7:
		return x, ky, "edge-y"
	case mode < 9:
		return kx, ky, "corner"
	}
	cx, cy := s.clamp(math.Floor(x)+0.5, math.Floor(y)+0.5)
	return cx, cy, "centre"
}

// microExtent: log-uniform from ~1 ulp of the largest tile fraction of the zoom
// (but not below 1e-15) to 1 tile.
func microExtent(t *rapid.T, s tspace) float64 {
	lo := math.Max(1e-15, math.Ldexp(s.n, -52))
	return logUniform(t, lo, 1, "mext")
}

func genMicro(t *rapid.T, s tspace) (orb.Geometry, string) {
	ax, ay, where := microAnchor(t, s)
	e := microExtent(t, s)
	off := func() (float64, float64) {
		return ax + e*rapid.Float64Range(-0.5, 0.5).Draw(t, "mox"), ay + e*rapid.Float64Range(-0.5, 0.5).Draw(t, "moy")
	}
	vert := func() orb.Point {
		x, y := off()
		x, y = s.clamp(x, y)
		return unproject(x, y, s.z)
	}
	size := "<1e-9"
	switch {
	case e >= 1e-3:
		size = ">=1e-3"
	case e >= 1e-6:
		size = "1e-6..1e-3"
	case e >= 1e-9:
		size = "1e-9..1e-6"
	}
	suffix := "/" + where + "/" + size
	switch k := rapid.IntRange(0, 13).Draw(t, "mkind"); {
	case k >= 12:
		return genExactX(t, s, ay)
	case k < 4:
		ls := make(orb.LineString, rapid.IntRange(2, 6).Draw(t, "mnv"))
		for i := range ls {
			ls[i] = vert()
		}
		return ls, "micro/line" + suffix
	case k < 7:
		// star-shaped micro ring around the anchor
		nv := rapid.IntRange(3, 8).Draw(t, "mpnv")
		unit := rotateStart(t, starUnit(t, nv))
		r := make(orb.Ring, 0, nv+1)
		for _, u := range unit {
			x, y := s.clamp(ax+0.5*e*u[0], ay+0.5*e*u[1])
			r = append(r, unproject(x, y, s.z))
		}
		r = append(r, r[0])
		if k == 6 {
			return r, "micro/ring" + suffix
		}
		return orb.Polygon{r}, "micro/polygon" + suffix
	case k < 8:
		mp := make(orb.MultiPoint, rapid.IntRange(1, 8).Draw(t, "mnp"))
		for i := range mp {
			mp[i] = vert()
		}
		return mp, "micro/multipoint" + suffix
	case k < 9:
		return vert(), "micro/point" + suffix
	case k < 10:
		a, b := vert(), vert()
		return orb.Bound{Min: orb.Point{math.Min(a[0], b[0]), math.Min(a[1], b[1])}, Max: orb.Point{math.Max(a[0], b[0]), math.Max(a[1], b[1])}}, "micro/bound" + suffix
	case k < 11:
		// vertices that differ by a few ulps of longitude / latitude
		x, y := s.clamp(ax, ay)
		base := unproject(x, y, s.z)
		ls := make(orb.LineString, rapid.IntRange(2, 5).Draw(t, "unv"))
		for i := range ls {
			p := base
			for d := 0; d < 2; d++ {
				steps := int(logUniform(t, 1, 1e5, "ulps")) * rapid.SampledFrom([]int{-1, 0, 1}).Draw(t, "usgn")
				dir := math.Inf(1)
				if steps < 0 {
					dir, steps = math.Inf(-1), -steps
				}
				if steps <= 64 {
					for j := 0; j < steps; j++ {
						p[d] = math.Nextafter(p[d], dir)
					}
				} else {
					u := math.Nextafter(math.Abs(p[d])+1e-300, math.Inf(1)) - (math.Abs(p[d]) + 1e-300)
					p[d] += math.Copysign(float64(steps)*u, dir)
				}
			}
			if !inLonLatDomain(p) {
				p = base
			}
			ls[i] = p
		}
		return ls, "micro/ulp-line/" + where
	}
	// a collection of a micro line, its first vertex and a micro polygon at the same anchor
	a, b, c := vert(), vert(), vert()
	coll := orb.Collection{orb.LineString{a, b}, a, orb.MultiPoint{b, c}}
	if a != b && b != c && a != c {
		coll = append(coll, orb.Polygon{orb.Ring{a, b, c, a}})
	}
	return coll, "micro/collection" + suffix
}

// genDense draws a densified line: N micro steps of length s through an anchor,
// so that the line crosses the tile boundaries at the anchor (and, when it is
// long enough, others).
func genDense(t *rapid.T, s tspace, maxN int) (DenseLine, string) {
	ax, ay, where := microAnchor(t, s)
	n := int(logUniform(t, 1000, float64(maxN), "dn"))
	lo := math.Max(1e-13, math.Ldexp(s.n, -51))
	step := logUniform(t, lo, 1e-4, "dstep")
	length := math.Min(step*float64(n), math.Min(3, 0.4*s.n))
	var dx, dy float64
	switch rapid.IntRange(0, 5).Draw(t, "ddir") {
	case 0:
		dx = 1
	case 1:
		dy = 1
	case 2:
		dx, dy = math.Sqrt2/2, math.Sqrt2/2
	default:
		phi := rapid.Float64Range(0, 2*math.Pi).Draw(t, "dphi")
		dx, dy = math.Cos(phi), math.Sin(phi)
	}
	// the anchor is somewhere along the line, not always in the middle
	f := rapid.Float64Range(0.05, 0.95).Draw(t, "dfrac")
	x0, y0 := s.clamp(ax-dx*length*f, ay-dy*length*f)
	x1, y1 := s.clamp(ax+dx*length*(1-f), ay+dy*length*(1-f))
	a, b := unproject(x0, y0, s.z), unproject(x1, y1, s.z)
	name := "step>=1e-9"
	if length/float64(n) < 1e-9 {
		name = "step<1e-9"
	}
	return DenseLine{A: gen2P{gen.F(a[0]), gen.F(a[1])}, B: gen2P{gen.F(b[0]), gen.F(b[1])}, N: n}, "dense/" + where + "/" + name
}

// genExactX (L6): longitudes that project WITHOUT ROUNDING to a position 2^-j
// tile away from a column edge (j up to 40: far inside the 1e-6 band that is
// otherwise optional). The column of such a vertex is exact under every
// evaluation order, so the model demands it exactly: points, multi-points,
// exactly vertical segments and bounds.
func genExactX(t *rapid.T, s tspace, ay float64) (orb.Geometry, string) {
	k0 := rapid.IntRange(1, int(math.Max(1, s.n-1))).Draw(t, "xk0")
	lonAt := func(label string) float64 {
		// column edges within 4 tiles of each other (a bound between them stays small)
		k := math.Min(s.n-1, float64(k0+rapid.IntRange(0, 4).Draw(t, label+"k")))
		if s.z == 0 {
			k = 0.5 // no interior column edge at zoom 0: stay off the world's edge
		}
		// x/n - 0.5 needs z + j bits, times 360 another 6: keep z + j + 6 <= 52
		maxJ := 46 - int(s.z)
		if maxJ > 40 {
			maxJ = 40
		}
		minJ := 1
		if s.z == 0 {
			minJ = 2 // 0.5 +- 2^-1 would be the edge of the world (longitude +-180)
		}
		j := rapid.IntRange(minJ, maxJ).Draw(t, label+"j")
		x := k + float64(rapid.SampledFrom([]int{-1, 1}).Draw(t, label+"s"))*math.Ldexp(1, -j)
		return (x/s.n - 0.5) * 360
	}
	_, y := s.clamp(0, ay)
	lat := func(dy float64) float64 {
		_, yy := s.clamp(0, y+dy)
		return unproject(0, yy, s.z)[1]
	}
	switch rapid.IntRange(0, 3).Draw(t, "xkind") {
	case 0:
		return orb.Point{lonAt("a"), lat(0.37)}, "micro/exactx-point"
	case 1:
		mp := make(orb.MultiPoint, rapid.IntRange(2, 4).Draw(t, "xn"))
		for i := range mp {
			mp[i] = orb.Point{lonAt("m"), lat(0.37 + 0.21*float64(i))}
		}
		return mp, "micro/exactx-multipoint"
	case 2:
		lon := lonAt("v")
		return orb.LineString{{lon, lat(0.3)}, {lon, lat(0.3 + rapid.Float64Range(0.2, 2.6).Draw(t, "xlen"))}}, "micro/exactx-vertical-line"
	}
	a, b := lonAt("b0"), lonAt("b1")
	la, lb := lat(0.3), lat(1.8)
	return orb.Bound{Min: orb.Point{math.Min(a, b), math.Min(la, lb)}, Max: orb.Point{math.Max(a, b), math.Max(la, lb)}}, "micro/exactx-bound"
}

// genAlias (L5): members of one geometry that share memory with each other once
// laid out with Layout "alias": the same point list twice, windows with equal
// start and different lengths, overlapping windows, suffixes, the same ring in
// two polygons, nested collections over the same list. The expectation is value
// semantics: the model is built from an independent deep copy.
func genAlias(t *rapid.T, s tspace) (orb.Geometry, string) {
	nv := rapid.IntRange(4, 10).Draw(t, "anv")
	span := math.Min(logUniform(t, 0.05, 6, "aspan"), 0.9*s.n)
	cx, cy := s.centre(t, span/2)
	P := make(orb.LineString, nv)
	for i := range P {
		x, y := s.clamp(cx+rapid.Float64Range(-0.5, 0.5).Draw(t, "ax")*span, cy+rapid.Float64Range(-0.5, 0.5).Draw(t, "ay")*span)
		P[i] = unproject(x, y, s.z)
	}
	win := func(label string, minLen int) orb.LineString {
		a := rapid.IntRange(0, nv-minLen).Draw(t, label+"a")
		b := rapid.IntRange(a+minLen, nv).Draw(t, label+"b")
		return P[a:b]
	}
	ring := func() orb.Ring {
		unit := starUnit(t, rapid.IntRange(3, 7).Draw(t, "arnv"))
		r := make(orb.Ring, 0, len(unit)+1)
		for _, u := range unit {
			x, y := s.clamp(cx+0.5*span*u[0], cy+0.5*span*u[1])
			r = append(r, unproject(x, y, s.z))
		}
		return append(r, r[0])
	}
	switch rapid.IntRange(0, 8).Draw(t, "akind") {
	case 7, 8:
		// a polygon with a large hole, and the same outer ring again as a polygon of
		// its own, which covers the hole: the second member is NOT redundant
		big := math.Min(rapid.Float64Range(3, 12).Draw(t, "abig"), 0.8*s.n)
		bx, by := s.centre(t, big/2)
		unit := starUnit(t, rapid.IntRange(4, 8).Draw(t, "abnv"))
		d := inradius(unit)
		mk := func(f float64) orb.Ring {
			r := make(orb.Ring, 0, len(unit)+1)
			for _, u := range unit {
				x, y := s.clamp(bx+0.5*big*f*u[0], by+0.5*big*f*u[1])
				r = append(r, unproject(x, y, s.z))
			}
			return append(r, r[0])
		}
		outer := mk(1)
		hole := make(orb.Ring, 0, 5)
		for _, u := range []pt{{-1, -1}, {1, -1}, {1, 1}, {-1, 1}} {
			x, y := s.clamp(bx+0.5*big*0.6*d*u[0], by+0.5*big*0.6*d*u[1])
			hole = append(hole, unproject(x, y, s.z))
		}
		hole = append(hole, hole[0])
		if rapid.Bool().Draw(t, "aorder") {
			return orb.MultiPolygon{orb.Polygon{outer, hole}, orb.Polygon{outer}}, "alias/polygon with hole, then its outer ring alone"
		}
		return orb.Collection{orb.Polygon{outer, hole}, orb.MultiPolygon{orb.Polygon{hole}, orb.Polygon{outer}}, orb.Polygon{outer}}, "alias/collection: polygon with hole, hole as polygon, outer alone"
	case 0:
		return orb.MultiLineString{P, P}, "alias/same line twice"
	case 1:
		k := rapid.IntRange(2, nv-1).Draw(t, "ak")
		return orb.MultiLineString{P, P[:k], P[nv-k:], win("w", 2)}, "alias/prefix, suffix and window of one line"
	case 2:
		return orb.MultiLineString{win("u", 2), win("v", 2), win("w", 2)}, "alias/overlapping windows"
	case 3:
		r := ring()
		return orb.MultiPolygon{orb.Polygon{r}, orb.Polygon{r}}, "alias/same ring in two polygons"
	case 4:
		r := ring()
		return orb.Polygon{r, r}, "alias/hole is the outer ring"
	case 5:
		k := rapid.IntRange(2, nv-1).Draw(t, "ak")
		return orb.Collection{orb.Collection{orb.LineString(P)}, orb.Collection{orb.LineString(P[:k])}, orb.MultiPoint(P[:k]), P[0]}, "alias/nested collections over one list"
	}
	r := ring()
	return orb.Collection{orb.LineString(P), orb.MultiPoint(P[1:]), r, orb.Polygon{r}, orb.LineString(r), orb.MultiLineString{P[:2], P[:3]}}, "alias/collection of views"
}
