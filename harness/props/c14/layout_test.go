package c14

// Memory layouts for the geometry argument of the cover functions (adapted
// from props/c20/layout_test.go). Tile covers are read-only on their argument;
// the one way a function that only receives slices can reach memory it was not
// given as elements is by appending into (or re-slicing up to) the spare
// capacity of a slice. The geometry handed to tilecover is therefore re-laid
// out so that every slice has spare capacity whose content is watched:
//
//	shared  all point slices of the value are consecutive windows of ONE backing
//	        buffer (no gaps, three sentinel points after the last window; every
//	        window has len < cap, so an append writes into the next ring's first
//	        vertex or into a sentinel)
//	spare   every point slice has its own array with cap = len+2 and sentinel
//	        points in the two spare slots
//	plain   the harness deep copy (cap == len)
//
// In the shared and spare layouts the outer slices ([]Ring, []LineString,
// []Polygon, []Geometry) also get cap = len+2 with sentinel entries. The guard
// keeps the full-capacity view of every backing array and a copy of it; after
// the calls the whole arrays (not only the elements within len) must be
// bit-for-bit what they were.

import (
	"fmt"
	"math"
	"unsafe"

	"github.com/paulmach/orb"

	"verifharness/internal/gen"
)

var sentinelPt = orb.Point{-7.77e77, 7.77e77}

type guard struct {
	views  [][]orb.Point   // full-capacity views of the coordinate arrays
	copies [][]orb.Point   // their content at lay-out time
	outers []func() string // describe the spare entries of an outer slice
	outer0 []string
}

func (gd *guard) watch(full []orb.Point) {
	gd.views = append(gd.views, full)
	gd.copies = append(gd.copies, append([]orb.Point(nil), full...))
}

func (gd *guard) watchOuter(f func() string) {
	gd.outers = append(gd.outers, f)
	gd.outer0 = append(gd.outer0, f())
}

// check reports the first difference between the watched memory and its copy.
func (gd *guard) check() error {
	if gd == nil {
		return nil
	}
	for i, v := range gd.views {
		c := gd.copies[i]
		for j := range v {
			if math.Float64bits(v[j][0]) != math.Float64bits(c[j][0]) || math.Float64bits(v[j][1]) != math.Float64bits(c[j][1]) {
				return fmt.Errorf("backing array %d, slot %d of %d: %v became %v (memory outside the elements it was given, or an element itself)", i, j, len(v), c[j], v[j])
			}
		}
	}
	for i, f := range gd.outers {
		if s := f(); s != gd.outer0[i] {
			return fmt.Errorf("spare capacity of outer slice %d changed: %s became %s", i, gd.outer0[i], s)
		}
	}
	return nil
}

func countPoints(g orb.Geometry) int {
	n := 0
	switch v := g.(type) {
	case orb.MultiPoint:
		n = len(v)
	case orb.LineString:
		n = len(v)
	case orb.Ring:
		n = len(v)
	case orb.MultiLineString:
		for _, l := range v {
			n += len(l)
		}
	case orb.Polygon:
		for _, r := range v {
			n += len(r)
		}
	case orb.MultiPolygon:
		for _, p := range v {
			for _, r := range p {
				n += len(r)
			}
		}
	case orb.Collection:
		for _, m := range v {
			n += countPoints(m)
		}
	}
	return n
}

type layouter struct {
	mode string
	gd   *guard
	buf  []orb.Point // shared / alias mode: the one backing buffer
	off  int
	offs []int // alias mode: window start of every point slice, in traversal order
}

func describePts(ps []orb.Point) string {
	if ps == nil {
		return "nil"
	}
	return fmt.Sprintf("%p/%d", unsafe.SliceData(ps), len(ps))
}

// pts lays out one point slice.
func (l *layouter) pts(ps []orb.Point) []orb.Point {
	if ps == nil {
		return nil
	}
	if l.mode == "alias" {
		off := l.offs[0]
		l.offs = l.offs[1:]
		return l.buf[off : off+len(ps)]
	}
	if l.mode == "shared" {
		w := l.buf[l.off : l.off+len(ps)] // cap runs to the end of the buffer: len < cap
		copy(w, ps)
		l.off += len(ps)
		return w
	}
	full := make([]orb.Point, len(ps)+2)
	copy(full, ps)
	full[len(ps)], full[len(ps)+1] = sentinelPt, sentinelPt
	l.gd.watch(full)
	return full[:len(ps)]
}

func (l *layouter) geom(g orb.Geometry) orb.Geometry {
	sentinelRing := []orb.Point{sentinelPt}
	switch v := g.(type) {
	case orb.MultiPoint:
		return orb.MultiPoint(l.pts(v))
	case orb.LineString:
		return orb.LineString(l.pts(v))
	case orb.Ring:
		return orb.Ring(l.pts(v))
	case orb.MultiLineString:
		if v == nil {
			return v
		}
		full := make(orb.MultiLineString, len(v)+2)
		for i := range v {
			full[i] = l.pts(v[i])
		}
		full[len(v)], full[len(v)+1] = sentinelRing, sentinelRing
		l.gd.watchOuter(func() string { return describePts(full[len(v)]) + describePts(full[len(v)+1]) })
		return full[:len(v)]
	case orb.Polygon:
		if v == nil {
			return v
		}
		return l.polygon(v)
	case orb.MultiPolygon:
		if v == nil {
			return v
		}
		full := make(orb.MultiPolygon, len(v)+2)
		for i := range v {
			if v[i] != nil {
				full[i] = l.polygon(v[i])
			}
		}
		sp := orb.Polygon{sentinelRing}
		full[len(v)], full[len(v)+1] = sp, sp
		l.gd.watchOuter(func() string {
			a, b := full[len(v)], full[len(v)+1]
			return fmt.Sprintf("%p/%d %p/%d", unsafe.SliceData(a), len(a), unsafe.SliceData(b), len(b))
		})
		return full[:len(v)]
	case orb.Collection:
		if v == nil {
			return v
		}
		full := make(orb.Collection, len(v)+2)
		for i := range v {
			full[i] = l.geom(v[i])
		}
		full[len(v)], full[len(v)+1] = sentinelPt, sentinelPt
		l.gd.watchOuter(func() string {
			return fmt.Sprintf("%T%v %T%v", full[len(v)], full[len(v)], full[len(v)+1], full[len(v)+1])
		})
		return full[:len(v)]
	}
	return g
}

func (l *layouter) polygon(p orb.Polygon) orb.Polygon {
	sentinelRing := orb.Ring{sentinelPt}
	full := make(orb.Polygon, len(p)+2)
	for i := range p {
		full[i] = l.pts(p[i])
	}
	full[len(p)], full[len(p)+1] = sentinelRing, sentinelRing
	l.gd.watchOuter(func() string { return describePts(full[len(p)]) + describePts(full[len(p)+1]) })
	return full[:len(p)]
}

// layOut returns a copy of g in the named layout and the guard watching its
// memory ("" and "plain": the harness deep copy, no guard beyond the elements).
func layOut(g orb.Geometry, mode string) (orb.Geometry, *guard) {
	if mode == "alias" && countPoints(g) > 4096 {
		mode = "shared"
	}
	if mode != "shared" && mode != "spare" && mode != "alias" {
		return gen.DeepCopy(g), nil
	}
	l := &layouter{mode: mode, gd: &guard{}}
	switch mode {
	case "shared":
		n := countPoints(g)
		l.buf = make([]orb.Point, n+3)
		for i := range l.buf {
			l.buf[i] = sentinelPt
		}
	case "alias":
		// members that have the same content, or whose content is a window of what
		// was laid out before them, SHARE that memory: the same slice twice, equal
		// start with different lengths, overlapping windows, a prefix of a sibling
		var pool []orb.Point
		walkSlices(g, func(ps []orb.Point) {
			off := findWindow(pool, ps)
			if off < 0 {
				off = len(pool)
				pool = append(pool, ps...)
			}
			l.offs = append(l.offs, off)
		})
		l.buf = make([]orb.Point, len(pool)+3)
		copy(l.buf, pool)
		for i := len(pool); i < len(l.buf); i++ {
			l.buf[i] = sentinelPt
		}
	}
	out := l.geom(g)
	if mode == "shared" || mode == "alias" {
		l.gd.watch(l.buf) // after the windows were filled
	}
	return out, l.gd
}

func samePt(a, b orb.Point) bool {
	return math.Float64bits(a[0]) == math.Float64bits(b[0]) && math.Float64bits(a[1]) == math.Float64bits(b[1])
}

// findWindow: start of the first window of pool that equals ps bit for bit (-1: none).
func findWindow(pool, ps []orb.Point) int {
	if len(ps) == 0 {
		return 0
	}
	for off := 0; off+len(ps) <= len(pool); off++ {
		ok := true
		for i := range ps {
			if !samePt(pool[off+i], ps[i]) {
				ok = false
				break
			}
		}
		if ok {
			return off
		}
	}
	return -1
}

// walkSlices visits the non-nil point slices of g in the order layouter.geom lays them out.
func walkSlices(g orb.Geometry, f func(ps []orb.Point)) {
	visit := func(ps []orb.Point) {
		if ps != nil {
			f(ps)
		}
	}
	switch v := g.(type) {
	case orb.MultiPoint:
		visit(v)
	case orb.LineString:
		visit(v)
	case orb.Ring:
		visit(v)
	case orb.MultiLineString:
		for _, l := range v {
			visit(l)
		}
	case orb.Polygon:
		for _, r := range v {
			visit(r)
		}
	case orb.MultiPolygon:
		for _, p := range v {
			for _, r := range p {
				visit(r)
			}
		}
	case orb.Collection:
		for _, m := range v {
			walkSlices(m, f)
		}
	}
}

// unclose drops the closing vertex of every closed ring of g (the "unclosed
// spelling" of a ring). Such rings are outside C14's quantifier: tilecover may
// refuse them with ErrUnevenIntersections; they only have to return without
// panic, without tiles outside their bound and without touching their argument.
func unclose(g orb.Geometry) orb.Geometry {
	ring := func(r orb.Ring) orb.Ring {
		if len(r) >= 3 && r[0] == r[len(r)-1] {
			return append(orb.Ring(nil), r[:len(r)-1]...)
		}
		return r
	}
	switch v := g.(type) {
	case orb.Ring:
		return ring(v)
	case orb.Polygon:
		out := make(orb.Polygon, len(v))
		for i := range v {
			out[i] = ring(v[i])
		}
		return out
	case orb.MultiPolygon:
		out := make(orb.MultiPolygon, len(v))
		for i := range v {
			out[i] = unclose(v[i]).(orb.Polygon)
		}
		return out
	case orb.Collection:
		out := make(orb.Collection, len(v))
		for i := range v {
			out[i] = unclose(v[i])
		}
		return out
	}
	return g
}

func hasRing(g orb.Geometry) bool {
	switch v := g.(type) {
	case orb.Ring:
		return len(v) > 0
	case orb.Polygon:
		return len(v) > 0
	case orb.MultiPolygon:
		return len(v) > 0
	case orb.Collection:
		for _, m := range v {
			if hasRing(m) {
				return true
			}
		}
	}
	return false
}
