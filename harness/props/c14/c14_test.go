// Package c14 decides property C14 (tile covers contain every touched tile;
// merging keeps area) by generated search against an independent tile-space
// model: vertices are projected with the harness's own mercator formula, line
// covers are compared with exact segment/square intersection, polygon covers
// with boundary intersection plus an even-odd scan of tile centres, merges
// with an ancestor count and an area sum.
//
// Tolerance (the only one): eps = 1e-6 tile. A tile is REQUIRED only when the
// geometry meets the tile shrunk by eps on all four sides, and ALLOWED when
// the geometry meets the tile grown by eps on all four sides. Everything in
// between (contacts within 1e-6 tile of a tile edge or corner) is optional.
package c14

import (
	"encoding/json"
	"fmt"
	"math"
	"math/big"
	"sort"
	"sync"
	"testing"
	"time"

	"github.com/paulmach/orb"
	"github.com/paulmach/orb/maptile"
	"github.com/paulmach/orb/maptile/tilecover"

	"verifharness/internal/gen"
	"verifharness/internal/stats"
)

func TestMain(m *testing.M) {
	// Every case of this package needs micro- to milliseconds of CPU (the largest, a
	// polygon 300 tiles across, ~0.1 s). On the shared, heavily loaded machine a
	// 0.00 s merge case was once reported as a "hang" by the 2-minute wall-clock
	// watchdog because the whole process had been stalled; 10 minutes keeps
	// genuine hangs detectable without that false alarm.
	stats.SetLimits(10*time.Minute, 3<<30)
	stats.Main(m, "C14")
}

const eps = 1e-6

// Case is one generated input (also the replay format).
//
//	kind "cover": tile cover of G at zoom Z, then MergeUp of that cover to Target
//	kind "merge": MergeUp of the synthetic tile set Tiles (all at zoom Z) to Target
type Case struct {
	Kind   string      `json:"kind"`
	Class  string      `json:"class"`
	Z      uint32      `json:"z"`
	Target uint32      `json:"target"`
	G      gen.G       `json:"g"`
	Dense  *DenseLine  `json:"dense,omitempty"`  // kind "cover": a densified line instead of G (see micro_test.go)
	Large  *Large      `json:"large,omitempty"`  // kind "large": one rung of a size ladder (see large_test.go)
	Shared int         `json:"shared,omitempty"` // kind "cover": that many goroutines call Geometry on the SAME argument value (zooms Z, Z-1, ...)
	Layout string      `json:"layout,omitempty"` // memory layout of the argument: shared | spare | plain (see layout_test.go)
	Tiles  [][2]uint32 `json:"tiles,omitempty"`
}

type pt = [2]float64

// gen2P is a lon/lat pair stored bit-exactly (gen.F) in replay files.
type gen2P [2]gen.F

func (p gen2P) pt() orb.Point { return orb.Point{float64(p[0]), float64(p[1])} }

// geometry returns the geometry of a cover case.
func (c Case) geometry() orb.Geometry {
	if c.Dense != nil {
		return c.Dense.line()
	}
	return c.G.V
}

type tkey struct{ x, y int64 }

// tileOf builds a tile value directly (not through maptile.New: the oracle
// calls no function or method of orb; see the audit note at the end of this file).
func tileOf[Z uint32 | maptile.Zoom](x, y uint32, z Z) maptile.Tile {
	return maptile.Tile{X: x, Y: y, Z: maptile.Zoom(z)}
}

func worldN(z uint32) float64 { return math.Ldexp(1, int(z)) }

// project is the harness's own spherical-mercator formula (asinh/tan form, not
// the log((1+sin)/(1-sin)) form of maptile.Fraction).
func project(p orb.Point, z uint32) pt {
	n := worldN(z)
	x := (p[0] + 180) / 360 * n
	phi := p[1] * math.Pi / 180
	y := (1 - math.Asinh(math.Tan(phi))/math.Pi) / 2 * n
	return pt{x, y}
}

// unproject is the inverse (used by the generators only).
func unproject(x, y float64, z uint32) orb.Point {
	n := worldN(z)
	lon := (x/n - 0.5) * 360
	lat := math.Atan(math.Sinh(math.Pi*(1-2*y/n))) * 180 / math.Pi
	return orb.Point{lon, lat}
}

// segBox: does the closed segment a-b meet the closed box? (Liang-Barsky)
func segBox(a, b pt, lox, loy, hix, hiy float64) bool {
	t0, t1 := 0.0, 1.0
	lo := pt{lox, loy}
	hi := pt{hix, hiy}
	for d := 0; d < 2; d++ {
		dd := b[d] - a[d]
		if dd == 0 {
			if a[d] < lo[d] || a[d] > hi[d] {
				return false
			}
			continue
		}
		ta, tb := (lo[d]-a[d])/dd, (hi[d]-a[d])/dd
		if ta > tb {
			ta, tb = tb, ta
		}
		t0 = math.Max(t0, ta)
		t1 = math.Min(t1, tb)
	}
	return t0 <= t1
}

func segTile(a, b pt, k tkey, grow float64) bool { return segTileXY(a, b, k, grow, grow) }

// segTileXY: the tile grown by gx in x and gy in y (negative: shrunk).
func segTileXY(a, b pt, k tkey, gx, gy float64) bool {
	x, y := float64(k.x), float64(k.y)
	return segBox(a, b, x-gx, y-gy, x+1+gx, y+1+gy)
}

// segTiles calls f for every tile whose square, grown by grow (negative:
// shrunk), is met by the segment a-b. Cost is proportional to the number of
// tiles the segment passes.
func segTiles(a, b pt, grow float64, f func(k tkey)) { segTilesXY(a, b, grow, grow, f) }

func segTilesXY(a, b pt, gx, gy float64, f func(k tkey)) {
	ax, ay := math.Abs(gx), math.Abs(gy)
	minx, maxx := math.Min(a[0], b[0]), math.Max(a[0], b[0])
	dx, dy := b[0]-a[0], b[1]-a[1]
	for tx := int64(math.Floor(minx - ax)); tx <= int64(math.Floor(maxx+ax)); tx++ {
		lo, hi := float64(tx)-gx, float64(tx)+1+gx
		t0, t1 := 0.0, 1.0
		if dx == 0 {
			if a[0] < lo || a[0] > hi {
				continue
			}
		} else {
			ta, tb := (lo-a[0])/dx, (hi-a[0])/dx
			if ta > tb {
				ta, tb = tb, ta
			}
			t0, t1 = math.Max(0, ta), math.Min(1, tb)
			if t0 > t1 {
				continue
			}
		}
		y0, y1 := a[1]+t0*dy, a[1]+t1*dy
		if y0 > y1 {
			y0, y1 = y1, y0
		}
		for ty := int64(math.Floor(y0-ay)) - 1; ty <= int64(math.Floor(y1+ay))+1; ty++ {
			k := tkey{tx, ty}
			if segTileXY(a, b, k, gx, gy) {
				f(k)
			}
		}
	}
}

// ---------------------------------------------------------------- the model

type model struct {
	z     uint32
	req   map[tkey]string     // tiles that must be in the cover, with the reason
	allow []func(k tkey) bool // a cover tile must satisfy at least one
	notes map[string]int      // counters for classification
	inDom bool                // false once a member outside the quantifier was seen
	why   string              // why not in the domain
	polys []polyInfo          // per polygon info
	verts []vert              // vertices of which the cover must hold a tile (within eps; within 0 in x where x is exact)
}

type polyInfo struct {
	interiorOnly int
}

func newModel(z uint32) *model {
	return &model{z: z, req: map[tkey]string{}, notes: map[string]int{}, inDom: true}
}

func (m *model) outside(why string) {
	if m.inDom {
		m.inDom = false
		m.why = why
	}
}

// vert is a vertex with its tolerance in x: eps, or 0 where the longitude
// projects without any rounding to a position strictly inside a column (L6).
type vert struct {
	p  pt
	ex float64
}

func vertsOf(ps []pt) []vert {
	out := make([]vert, len(ps))
	for i, p := range ps {
		out[i] = vert{p, eps}
	}
	return out
}

// exactX reports whether the tile-space x of a longitude is computed without
// any rounding both in orb's order (lon/360 + 0.5) * n and in the harness's
// ((lon + 180) / 360) * n - every intermediate is exactly representable - and
// returns that x. Then the column of a vertex is not a matter of rounding, however
// close to a column edge it is. (Latitudes never qualify: the mercator y goes
// through sin/log.)
func exactX(lon float64, z uint32) (float64, bool) {
	bf := func(v float64) *big.Float { return new(big.Float).SetPrec(200).SetFloat64(v) }
	mul360 := func(v float64) *big.Float { return new(big.Float).SetPrec(200).Mul(bf(v), bf(360)) }
	q := lon / 360
	if mul360(q).Cmp(bf(lon)) != 0 {
		return 0, false
	}
	r := q + 0.5
	if new(big.Float).SetPrec(200).Add(bf(q), bf(0.5)).Cmp(bf(r)) != 0 {
		return 0, false
	}
	sum := lon + 180
	if new(big.Float).SetPrec(200).Add(bf(lon), bf(180)).Cmp(bf(sum)) != 0 {
		return 0, false
	}
	t := sum / 360
	if mul360(t).Cmp(bf(sum)) != 0 {
		return 0, false
	}
	n := worldN(z)
	if r*n != t*n {
		return 0, false
	}
	return r * n, true
}

// epsX is the tolerance in x for a vertex of longitude lon at projected x: 0 if
// x is within eps of a column edge, not on it, and exact; eps otherwise (where
// 0 and eps decide the same).
func (m *model) epsX(lon, x float64) float64 {
	if d := math.Abs(x - math.Round(x)); d == 0 || d >= eps {
		return eps
	}
	if xe, ok := exactX(lon, m.z); ok && xe == x && xe != math.Round(xe) {
		return 0
	}
	return eps
}

func pointAllowX(p pt, ex float64) func(k tkey) bool {
	return func(k tkey) bool {
		x, y := float64(k.x), float64(k.y)
		return p[0] >= x-ex && p[0] <= x+1+ex && p[1] >= y-eps && p[1] <= y+1+eps
	}
}

func pointAllow(p pt) func(k tkey) bool {
	return func(k tkey) bool {
		x, y := float64(k.x), float64(k.y)
		return p[0] >= x-eps && p[0] <= x+1+eps && p[1] >= y-eps && p[1] <= y+1+eps
	}
}

func inLonLatDomain(p orb.Point) bool {
	return p[0] > -180 && p[0] < 180 && p[1] > -85 && p[1] < 85
}

func (m *model) checkDomainPts(ps []orb.Point) {
	for _, p := range ps {
		if !inLonLatDomain(p) {
			m.outside("vertex outside lon (-180,180) / lat (-85,85)")
		}
	}
}

// certain is the extent (in tiles) from which a geometry has positive extent
// under ANY correctly rounded mercator projection: 2^-45 of the world width =
// 128 ulp of the largest tile fraction of the zoom (2.8e-14 tile at zoom 0,
// 1.2e-7 tile at zoom 22). The harness's projection and maptile.Fraction
// differ by at most ~10 such ulps (worst near |lat| = 85), so two vertices
// this far apart here are distinct there too. Geometries of smaller extent may
// legitimately collapse to one tile fraction (orb then sees a zero-length
// line): nothing is required of them.
func certain(z uint32) float64 { return math.Ldexp(1, int(z)-45) }

func extent(ps []pt) float64 {
	if len(ps) == 0 {
		return 0
	}
	minx, miny, maxx, maxy := ps[0][0], ps[0][1], ps[0][0], ps[0][1]
	for _, p := range ps {
		minx, maxx = math.Min(minx, p[0]), math.Max(maxx, p[0])
		miny, maxy = math.Min(miny, p[1]), math.Max(maxy, p[1])
	}
	return math.Max(maxx-minx, maxy-miny)
}

func (m *model) addPoint(p orb.Point) {
	m.checkDomainPts([]orb.Point{p})
	q := project(p, m.z)
	ex := m.epsX(p[0], q[0])
	m.verts = append(m.verts, vert{q, ex})
	m.allow = append(m.allow, pointAllowX(q, ex))
	fx, fy := math.Floor(q[0]), math.Floor(q[1])
	if (ex == 0 || (q[0]-fx > eps && q[0]-fx < 1-eps)) && q[1]-fy > eps && q[1]-fy < 1-eps {
		m.req[tkey{int64(fx), int64(fy)}] = "tile of a point"
	}
}

func projectAll(ps []orb.Point, z uint32) []pt {
	out := make([]pt, len(ps))
	for i, p := range ps {
		out[i] = project(p, z)
	}
	return out
}

func (m *model) addLine(ls orb.LineString) {
	m.checkDomainPts(ls)
	ps := projectAll(ls, m.z)
	ext := extent(ps)
	if !(ext >= certain(m.z)) {
		// zero-length line, or a line whose whole extent is below the resolution
		// of the tile fraction (orb may see it as zero-length): outside the
		// quantifier. Nothing is required; only tiles at the vertices are allowed.
		if ext == 0 {
			m.outside("line string without positive length")
		} else {
			m.outside("line string of extent below the resolution of the tile fraction (2^-45 world widths)")
		}
		for _, p := range ps {
			m.allow = append(m.allow, pointAllow(p))
		}
		return
	}
	// the line has positive length whatever the rounding of the projection:
	// every tile a segment passes through (shrunk by eps) is required, however
	// short the segment, and every vertex has a tile
	// an exactly vertical segment (both ends the same longitude) whose x is exact
	// and strictly inside a column lies in that column only, however close to
	// the column's edge (L6); every other segment keeps eps in x
	gx := make([]float64, len(ps))
	vs := vertsOf(ps)
	for i := 0; i+1 < len(ps); i++ {
		gx[i] = eps
		if ls[i][0] == ls[i+1][0] && ps[i][0] == ps[i+1][0] {
			gx[i] = m.epsX(ls[i][0], ps[i][0])
		}
	}
	for i := range vs {
		// a vertex is exact in x when every segment it belongs to is
		if (i == 0 || gx[i-1] == 0) && (i+1 >= len(ps) || gx[i] == 0) {
			vs[i].ex = 0
		}
	}
	m.verts = append(m.verts, vs...)
	for i := 0; i+1 < len(ps); i++ {
		a, b := ps[i], ps[i+1]
		if a == b {
			continue
		}
		segTilesXY(a, b, -gx[i], -eps, func(k tkey) {
			if _, ok := m.req[k]; !ok {
				m.req[k] = fmt.Sprintf("segment %d of a line passes through it", i)
			}
		})
	}
	if len(ps) > 64 {
		// many segments: tabulate the allowed tiles once
		allowed := map[tkey]bool{}
		for i := 0; i+1 < len(ps); i++ {
			segTilesXY(ps[i], ps[i+1], gx[i], eps, func(k tkey) { allowed[k] = true })
		}
		m.allow = append(m.allow, func(k tkey) bool { return allowed[k] })
		return
	}
	m.allow = append(m.allow, func(k tkey) bool {
		for i := 0; i+1 < len(ps); i++ {
			if segTileXY(ps[i], ps[i+1], k, gx[i], eps) {
				return true
			}
		}
		return false
	})
}

func orient(a, b, c pt) float64 {
	return (b[0]-a[0])*(c[1]-a[1]) - (b[1]-a[1])*(c[0]-a[0])
}

func onSeg(a, b, c pt) bool {
	return math.Min(a[0], b[0]) <= c[0] && c[0] <= math.Max(a[0], b[0]) &&
		math.Min(a[1], b[1]) <= c[1] && c[1] <= math.Max(a[1], b[1])
}

func segsMeet(a, b, c, d pt) bool {
	o1, o2, o3, o4 := orient(a, b, c), orient(a, b, d), orient(c, d, a), orient(c, d, b)
	if ((o1 > 0 && o2 < 0) || (o1 < 0 && o2 > 0)) && ((o3 > 0 && o4 < 0) || (o3 < 0 && o4 > 0)) {
		return true
	}
	return (o1 == 0 && onSeg(a, b, c)) || (o2 == 0 && onSeg(a, b, d)) || (o3 == 0 && onSeg(c, d, a)) || (o4 == 0 && onSeg(c, d, b))
}

// simpleClosed: every ring closed with >= 3 distinct vertices and non-zero
// area, no two non-adjacent edges (of the same or of different rings) meeting,
// no zero-length edge. This is the quantifier's "simple closed polygon".
func simpleClosed(poly orb.Polygon, rings [][]pt) (bool, string) {
	if len(poly) == 0 {
		return false, "polygon without rings"
	}
	for ri, r := range poly {
		if len(r) < 4 {
			return false, "ring with fewer than 4 points"
		}
		if r[0] != r[len(r)-1] {
			return false, "ring not closed"
		}
		ps := rings[ri]
		area := 0.0 // shoelace relative to the first vertex (no cancellation at zoom 22)
		for i := 0; i+1 < len(ps); i++ {
			if ps[i] == ps[i+1] {
				return false, "ring with a zero-length edge"
			}
			ax, ay := ps[i][0]-ps[0][0], ps[i][1]-ps[0][1]
			bx, by := ps[i+1][0]-ps[0][0], ps[i+1][1]-ps[0][1]
			area += ax*by - bx*ay
		}
		if area == 0 {
			return false, "ring with zero area"
		}
	}
	// holes lie inside the outer ring and outside each other (edges do not
	// meet, so one vertex decides)
	for i := 1; i < len(rings); i++ {
		if !insideRing(rings[0], rings[i][0]) {
			return false, "hole outside the outer ring"
		}
		for j := 1; j < len(rings); j++ {
			if j != i && insideRing(rings[j], rings[i][0]) {
				return false, "hole inside another hole"
			}
		}
	}
	type edge struct {
		a, b pt
		ring int
		idx  int
		n    int
	}
	var es []edge
	for ri, ps := range rings {
		for i := 0; i+1 < len(ps); i++ {
			es = append(es, edge{ps[i], ps[i+1], ri, i, len(ps) - 1})
		}
	}
	for i := range es {
		for j := i + 1; j < len(es); j++ {
			e, f := es[i], es[j]
			if e.ring == f.ring {
				d := f.idx - e.idx
				if d == 1 || d == e.n-1 {
					// adjacent edges share one endpoint; they must not fold back on each other
					var p, q, s pt
					if d == 1 {
						p, q, s = e.a, e.b, f.b
					} else {
						p, q, s = f.a, f.b, e.b
					}
					if orient(p, q, s) == 0 && (s[0]-q[0])*(p[0]-q[0])+(s[1]-q[1])*(p[1]-q[1]) > 0 {
						return false, "ring folds back on itself"
					}
					continue
				}
			}
			if segsMeet(e.a, e.b, f.a, f.b) {
				return false, "ring edges touch or cross"
			}
		}
	}
	return true, ""
}

func insideRing(r []pt, q pt) bool {
	in := false
	for i := 0; i+1 < len(r); i++ {
		a, b := r[i], r[i+1]
		if (a[1] > q[1]) != (b[1] > q[1]) {
			if a[0]+(q[1]-a[1])/(b[1]-a[1])*(b[0]-a[0]) > q[0] {
				in = !in
			}
		}
	}
	return in
}

// centreInside calls f for every tile whose centre is inside the rings by the
// even-odd rule (all rings together, so holes are excluded).
func centreInside(rings [][]pt, f func(k tkey)) {
	miny, maxy := math.Inf(1), math.Inf(-1)
	for _, r := range rings {
		for _, p := range r {
			miny, maxy = math.Min(miny, p[1]), math.Max(maxy, p[1])
		}
	}
	var xs []float64
	for ty := int64(math.Floor(miny)); ty <= int64(math.Floor(maxy)); ty++ {
		yc := float64(ty) + 0.5
		xs = xs[:0]
		for _, r := range rings {
			for i := 0; i+1 < len(r); i++ {
				a, b := r[i], r[i+1]
				if (a[1] > yc) != (b[1] > yc) {
					xs = append(xs, a[0]+(yc-a[1])/(b[1]-a[1])*(b[0]-a[0]))
				}
			}
		}
		sort.Float64s(xs)
		for k := 0; k+1 < len(xs); k += 2 {
			x0, x1 := xs[k], xs[k+1]
			for tx := int64(math.Ceil(x0 - 0.5)); float64(tx)+0.5 < x1; tx++ {
				if float64(tx)+0.5 > x0 {
					f(tkey{tx, ty})
				}
			}
		}
	}
}

func (m *model) addPolygon(poly orb.Polygon) {
	rings := make([][]pt, len(poly))
	minx, miny, maxx, maxy := math.Inf(1), math.Inf(1), math.Inf(-1), math.Inf(-1)
	for i, r := range poly {
		m.checkDomainPts(r)
		rings[i] = projectAll(r, m.z)
		for _, p := range rings[i] {
			minx, maxx = math.Min(minx, p[0]), math.Max(maxx, p[0])
			miny, maxy = math.Min(miny, p[1]), math.Max(maxy, p[1])
		}
	}
	// no tile outside the tile-space bound (of all rings; for a polygon of the
	// quantifier the holes are inside the outer ring, so this is the outer bound)
	m.allow = append(m.allow, func(k tkey) bool {
		x, y := float64(k.x), float64(k.y)
		return x+1+eps >= minx && x-eps <= maxx && y+1+eps >= miny && y-eps <= maxy
	})
	if ok, why := simpleClosed(poly, rings); !ok {
		m.outside("polygon: " + why)
		return
	}
	if !(extent(rings[0]) >= certain(m.z)) {
		m.outside("polygon of extent below the resolution of the tile fraction (2^-45 world widths)")
		return
	}
	for _, r := range rings {
		m.verts = append(m.verts, vertsOf(r)...)
	}
	bnd := map[tkey]bool{}
	for ri, r := range rings {
		for i := 0; i+1 < len(r); i++ {
			segTiles(r[i], r[i+1], -eps, func(k tkey) {
				if _, ok := m.req[k]; !ok {
					m.req[k] = fmt.Sprintf("edge %d of ring %d passes through it", i, ri)
				}
			})
			segTiles(r[i], r[i+1], eps, func(k tkey) { bnd[k] = true })
		}
	}
	info := polyInfo{}
	centreInside(rings, func(k tkey) {
		if _, ok := m.req[k]; !ok {
			m.req[k] = "its centre is inside the polygon and no edge passes through it"
		}
		if !bnd[k] {
			info.interiorOnly++
		}
	})
	m.polys = append(m.polys, info)
}

func (m *model) addBound(b orb.Bound) {
	m.checkDomainPts([]orb.Point{b.Min, b.Max})
	if !validBound(b) {
		// inverted bound: outside the property; nothing is required, and only a
		// tile that holds both corners (inversion within one tile) is allowed
		m.outside("bound with Min > Max")
	}
	lo, hi := project(b.Min, m.z), project(b.Max, m.z)
	ex0, ex1 := m.epsX(b.Min[0], lo[0]), m.epsX(b.Max[0], hi[0])
	if validBound(b) {
		m.verts = append(m.verts, vert{lo, ex0}, vert{hi, ex1})
	}
	x0, x1 := lo[0], hi[0]
	y0, y1 := hi[1], lo[1] // larger latitude = smaller tile y
	m.allow = append(m.allow, func(k tkey) bool {
		x, y := float64(k.x), float64(k.y)
		return x+1+ex0 >= x0 && x-ex1 <= x1 && y+1+eps >= y0 && y-eps <= y1
	})
	for tx := int64(math.Floor(x0)) - 1; tx <= int64(math.Floor(x1))+1; tx++ {
		x := float64(tx)
		if !(x+1-ex0 >= x0 && x+ex1 <= x1) {
			continue
		}
		for ty := int64(math.Floor(y0)) - 1; ty <= int64(math.Floor(y1))+1; ty++ {
			y := float64(ty)
			if y+1-eps >= y0 && y+eps <= y1 {
				m.req[tkey{tx, ty}] = "the bound overlaps it"
			}
		}
	}
}

func validBound(b orb.Bound) bool {
	return b.Min[0] <= b.Max[0] && b.Min[1] <= b.Max[1]
}

func (m *model) addGeom(g orb.Geometry) {
	switch v := g.(type) {
	case nil:
	case orb.Point:
		m.addPoint(v)
	case orb.MultiPoint:
		for _, p := range v {
			m.addPoint(p)
		}
	case orb.LineString:
		m.addLine(v)
	case orb.MultiLineString:
		for _, l := range v {
			m.addLine(l)
		}
	case orb.Ring:
		if len(v) == 0 {
			m.outside("empty ring")
			return
		}
		m.addPolygon(orb.Polygon{v})
	case orb.Polygon:
		m.addPolygon(v)
	case orb.MultiPolygon:
		for _, p := range v {
			m.addPolygon(p)
		}
	case orb.Bound:
		m.addBound(v)
	case orb.Collection:
		for _, c := range v {
			m.addGeom(c)
		}
	}
}

func members(s maptile.Set) map[maptile.Tile]bool {
	out := make(map[maptile.Tile]bool, len(s))
	for t, v := range s {
		if v {
			out[t] = true
		}
	}
	return out
}

func sameSet(a, b map[maptile.Tile]bool) (maptile.Tile, bool) {
	for t := range a {
		if !b[t] {
			return t, false
		}
	}
	for t := range b {
		if !a[t] {
			return t, false
		}
	}
	return maptile.Tile{}, true
}

// verify compares a cover with the model.
func (m *model) verify(cover map[maptile.Tile]bool) error {
	n := uint64(1) << m.z
	// deterministic order for the error message
	tiles := make([]maptile.Tile, 0, len(cover))
	for t := range cover {
		tiles = append(tiles, t)
	}
	sort.Slice(tiles, func(i, j int) bool {
		if tiles[i].Y != tiles[j].Y {
			return tiles[i].Y < tiles[j].Y
		}
		return tiles[i].X < tiles[j].X
	})
	for _, t := range tiles {
		if uint32(t.Z) != m.z {
			return fmt.Errorf("cover tile %v is not at the requested zoom %d", t, m.z)
		}
		if uint64(t.X) >= n || uint64(t.Y) >= n {
			return fmt.Errorf("cover tile %v is not a valid tile of zoom %d", t, m.z)
		}
		k := tkey{int64(t.X), int64(t.Y)}
		ok := false
		for _, a := range m.allow {
			if a(k) {
				ok = true
				break
			}
		}
		if !ok {
			return fmt.Errorf("extra tile %v: the geometry does not come within %g tile of it", t, eps)
		}
	}
	if !m.inDom {
		return nil
	}
	keys := make([]tkey, 0, len(m.req))
	for k := range m.req {
		keys = append(keys, k)
	}
	sort.Slice(keys, func(i, j int) bool {
		if keys[i].y != keys[j].y {
			return keys[i].y < keys[j].y
		}
		return keys[i].x < keys[j].x
	})
	for _, k := range keys {
		if k.x < 0 || k.y < 0 || uint64(k.x) >= n || uint64(k.y) >= n {
			return fmt.Errorf("harness: required tile (%d,%d) outside the world at zoom %d", k.x, k.y, m.z)
		}
		if !cover[tileOf(uint32(k.x), uint32(k.y), maptile.Zoom(m.z))] {
			return fmt.Errorf("missing tile (%d,%d,z%d): %s", k.x, k.y, m.z, m.req[k])
		}
	}
	// every vertex has a tile: one whose square, grown by eps, holds the vertex
	// (near an edge or corner any of the 2 or 4 tiles around it will do)
	for i, vt := range m.verts {
		v := vt.p
		found := false
		for _, tx := range []float64{math.Floor(v[0] - vt.ex), math.Floor(v[0] + vt.ex)} {
			for _, ty := range []float64{math.Floor(v[1] - eps), math.Floor(v[1] + eps)} {
				if tx >= 0 && ty >= 0 && tx < float64(n) && ty < float64(n) && cover[tileOf(uint32(tx), uint32(ty), m.z)] {
					found = true
				}
			}
		}
		if !found {
			return fmt.Errorf("vertex %d of %d at tile position (%.17g, %.17g), zoom %d: none of the tiles within %g tile (in x: %g) of it is in the cover (%d tiles)", i, len(m.verts), v[0], v[1], m.z, eps, vt.ex, len(cover))
		}
	}
	return nil
}

// ---------------------------------------------------------------- calling orb

func typedCover(g orb.Geometry, z maptile.Zoom) (maptile.Set, error) {
	switch v := g.(type) {
	case orb.Point:
		return tilecover.Point(v, z), nil
	case orb.MultiPoint:
		return tilecover.MultiPoint(v, z), nil
	case orb.LineString:
		return tilecover.LineString(v, z), nil
	case orb.MultiLineString:
		return tilecover.MultiLineString(v, z), nil
	case orb.Ring:
		return tilecover.Ring(v, z)
	case orb.Polygon:
		return tilecover.Polygon(v, z)
	case orb.MultiPolygon:
		return tilecover.MultiPolygon(v, z)
	case orb.Bound:
		return tilecover.Bound(v, z), nil
	case orb.Collection:
		return tilecover.Collection(v, z)
	}
	return nil, nil
}

// parts returns the members of a multi-geometry or collection (nil for simple kinds).
func parts(g orb.Geometry) []orb.Geometry {
	var out []orb.Geometry
	switch v := g.(type) {
	case orb.MultiPoint:
		for _, p := range v {
			out = append(out, p)
		}
	case orb.MultiLineString:
		for _, l := range v {
			out = append(out, l)
		}
	case orb.MultiPolygon:
		for _, p := range v {
			out = append(out, p)
		}
	case orb.Collection:
		for _, c := range v {
			out = append(out, c)
		}
	default:
		return nil
	}
	return out
}

func isMulti(g orb.Geometry) bool {
	switch g.(type) {
	case orb.MultiPoint, orb.MultiLineString, orb.MultiPolygon, orb.Collection:
		return true
	}
	return false
}

// info is what evaluate learned about a case (for classification only).
type info struct {
	inDomain     bool
	why          string
	reqTiles     int
	reqRows      int
	interiorOnly int
	coverSize    int
	mergedQuad   bool
}

func evaluate(c Case) (info, error) {
	switch c.Kind {
	case "cover":
		return evalCover(c)
	case "merge":
		return evalMerge(c)
	case "large":
		return evalLarge(c)
	}
	return info{}, fmt.Errorf("harness: unknown case kind %q", c.Kind)
}

func checkCase(c Case) error {
	_, err := evaluate(c)
	return err
}

func evalCover(c Case) (info, error) {
	var inf info
	if c.Z > 22 {
		return inf, fmt.Errorf("harness: zoom %d outside 0..22", c.Z)
	}
	if c.Target > c.Z {
		return inf, fmt.Errorf("harness: target zoom %d above cover zoom %d", c.Target, c.Z)
	}
	z := maptile.Zoom(c.Z)
	// the model works on an independent deep copy taken before any call; orb
	// gets the geometry re-laid out with watched spare capacity
	src := c.geometry()
	orig := gen.DeepCopy(src)
	g, gd := layOut(src, c.Layout)
	// a change of the VALUE the caller passed (any element within len of any part,
	// incl. the next member in the shared / alias layouts) is a failure: tile covers
	// are not documented to modify their input. A write that only reaches spare
	// capacity beyond len (sentinel cells) changes no value the caller can see and
	// is only counted (round L soundness rule).
	readOnly := func(after string) error {
		if same, what := gen.SameBits(g, orig); !same {
			return fmt.Errorf("tile covers do not modify their input, but after %s (layout %s) the geometry passed differs: %s", after, c.Layout, what)
		}
		if gd.check() != nil {
			stats.Class("layout-note:write into spare capacity of the argument beyond len (counted, not a failure)")
		}
		return nil
	}

	m := newModel(c.Z)
	m.addGeom(orig)
	inf.inDomain, inf.why = m.inDom, m.why
	inf.reqTiles = len(m.req)
	rows := map[int64]bool{}
	for k := range m.req {
		rows[k.y] = true
	}
	inf.reqRows = len(rows)
	for _, p := range m.polys {
		inf.interiorOnly += p.interiorOnly
	}

	set, err := tilecover.Geometry(g, z)
	if rerr := readOnly("tilecover.Geometry"); rerr != nil {
		return inf, rerr
	}
	if err != nil {
		if m.inDom {
			return inf, fmt.Errorf("tilecover.Geometry returned an error for a geometry of the quantifier: %v", err)
		}
		return inf, nil // non-simple / unclosed rings may be refused
	}
	cover := members(set)
	inf.coverSize = len(cover)
	if g == nil {
		if len(cover) != 0 {
			return inf, fmt.Errorf("cover of a nil geometry has %d tiles", len(cover))
		}
		return inf, nil
	}

	// the typed entry point agrees with the generic one
	tset, terr := typedCover(g, z)
	if rerr := readOnly("the typed cover function"); rerr != nil {
		return inf, rerr
	}
	if terr != nil {
		return inf, fmt.Errorf("typed cover function returned %v where tilecover.Geometry returned none", terr)
	}
	if t, ok := sameSet(cover, members(tset)); !ok {
		return inf, fmt.Errorf("tilecover.Geometry and the typed function of %s disagree on tile %v", gen.KindOf(g), t)
	}

	if _, isPoint := g.(orb.Point); isPoint && len(cover) != 1 {
		return inf, fmt.Errorf("cover of a point has %d tiles, want 1", len(cover))
	}

	if err := m.verify(cover); err != nil {
		return inf, err
	}

	// multi-geometries and collections: exactly the union of the members' covers
	if isMulti(g) {
		union := map[maptile.Tile]bool{}
		allOK := true
		origParts := parts(orig)
		for pi, p := range parts(g) {
			ps, perr := tilecover.Geometry(p, z)
			if perr != nil {
				allOK = false
				if m.inDom {
					return inf, fmt.Errorf("member %s: error %v", gen.KindOf(p), perr)
				}
				break
			}
			// the member's cover is judged by its own model (built from the
			// independent copy), so that "union of the members' covers" is not an
			// expectation borrowed from the library
			pm := newModel(c.Z)
			pm.addGeom(origParts[pi])
			if verr := pm.verify(members(ps)); verr != nil {
				return inf, fmt.Errorf("member %d (%s) of the %s: %v", pi, gen.KindOf(p), gen.KindOf(g), verr)
			}
			for t, v := range ps {
				if v {
					union[t] = true
				}
			}
		}
		if allOK {
			if t, ok := sameSet(cover, union); !ok {
				return inf, fmt.Errorf("cover of the %s is not the union of its members' covers (tile %v)", gen.KindOf(g), t)
			}
		}
	}

	if rerr := readOnly("the covers of the members"); rerr != nil {
		return inf, rerr
	}

	// results are independent values: scribble on the returned sets, repeat the
	// call, and the fresh result is what the first one was
	scribble(set, c.Z)
	if tset != nil {
		scribble(tset, c.Z)
	}
	set2, err2 := tilecover.Geometry(g, z)
	if err2 != nil {
		return inf, fmt.Errorf("second tilecover.Geometry call returned %v, the first none", err2)
	}
	if t, ok := sameSet(cover, members(set2)); !ok {
		return inf, fmt.Errorf("after writing into the returned tile set, the same tilecover.Geometry call gives a different cover (tile %v): results are not independent values", t)
	}
	tset2, _ := typedCover(g, z)
	if t, ok := sameSet(cover, members(tset2)); !ok {
		return inf, fmt.Errorf("after writing into the returned tile set, the same typed cover call gives a different cover (tile %v): results are not independent values", t)
	}

	// the same argument value used by several callers at once (L4): zooms Z,
	// Z-1, ...; every result is judged by the model of its zoom
	if c.Shared >= 2 {
		if err := sharedArg(g, orig, c.Z, c.Shared); err != nil {
			return inf, err
		}
		if rerr := readOnly("concurrent calls on the same argument"); rerr != nil {
			return inf, rerr
		}
	}

	// merging the cover upward
	tiles := make([]maptile.Tile, 0, len(cover))
	for t := range cover {
		tiles = append(tiles, t)
	}
	merged, err := checkMerge(tiles, c.Z, c.Target)
	inf.mergedQuad = merged
	return inf, err
}

func evalMerge(c Case) (info, error) {
	var inf info
	// merging has no projection in it: tile sets of any zoom the Tile type holds
	// are decided exactly (zoom 30 is used beside the property's 0..22)
	if c.Z > 30 || c.Target > c.Z {
		return inf, fmt.Errorf("harness: bad zooms %d/%d", c.Z, c.Target)
	}
	n := uint64(1) << c.Z
	seen := map[[2]uint32]bool{}
	tiles := make([]maptile.Tile, 0, len(c.Tiles))
	for _, t := range c.Tiles {
		if uint64(t[0]) >= n || uint64(t[1]) >= n {
			return inf, fmt.Errorf("harness: tile %v invalid at zoom %d", t, c.Z)
		}
		if !seen[t] {
			seen[t] = true
			tiles = append(tiles, tileOf(t[0], t[1], maptile.Zoom(c.Z)))
		}
	}
	inf.inDomain = true
	inf.coverSize = len(tiles)
	merged, err := checkMerge(tiles, c.Z, c.Target)
	inf.mergedQuad = merged
	return inf, err
}

func sharedArg(g, orig orb.Geometry, Z uint32, n int) error {
	var zs []uint32
	for i := 0; i < n && uint32(i) <= Z; i++ {
		zs = append(zs, Z-uint32(i))
	}
	models := make([]*model, len(zs))
	for i, z := range zs {
		models[i] = newModel(z)
		models[i].addGeom(orig)
	}
	errs := make([]error, len(zs))
	var wg sync.WaitGroup
	for i := range zs {
		wg.Add(1)
		go func(i int) {
			defer wg.Done()
			errs[i] = stats.Guard(func() error {
				for round := 0; round < 2; round++ {
					set, err := tilecover.Geometry(g, maptile.Zoom(zs[i]))
					if err != nil {
						if models[i].inDom {
							return fmt.Errorf("error %v", err)
						}
						return nil
					}
					if verr := models[i].verify(members(set)); verr != nil {
						return verr
					}
				}
				return nil
			})
		}(i)
	}
	wg.Wait()
	for i, e := range errs {
		if e != nil {
			return fmt.Errorf("%d goroutines covering the same geometry value at zooms %v: zoom %d: %v", len(zs), zs, zs[i], e)
		}
	}
	return nil
}

// scribble overwrites a returned tile set: every entry is switched off, some
// are deleted, and foreign tiles (other zooms, invalid ones) are added.
func scribble(s maptile.Set, z uint32) {
	i := 0
	for t := range s {
		if i%3 == 0 {
			delete(s, t)
		} else {
			s[t] = false
		}
		i++
	}
	s[tileOf(0, 0, maptile.Zoom(z))] = true
	s[tileOf(1, 1, maptile.Zoom(z+1))] = true
	s[tileOf(1<<31, 7, uint32(3))] = true
	s[maptile.Tile{}] = false
}

// ---------------------------------------------------------------- merge

func mkSet(tiles []maptile.Tile) maptile.Set {
	s := make(maptile.Set, len(tiles))
	for _, t := range tiles {
		s[t] = true
	}
	return s
}

// checkMerge: in are distinct tiles at zoom Z. mustMerge reports (from the
// input alone) that a complete sibling quad exists above the target zoom.
func checkMerge(in []maptile.Tile, Z, target uint32) (mustMerge bool, err error) {
	inSet := mkSet(in)
	if Z > target {
		for _, t := range in {
			if t.X%2 == 0 && t.Y%2 == 0 &&
				inSet[tileOf(t.X+1, t.Y, t.Z)] && inSet[tileOf(t.X, t.Y+1, t.Z)] && inSet[tileOf(t.X+1, t.Y+1, t.Z)] {
				mustMerge = true
				break
			}
		}
	}
	// MergeUp mutates its argument: every call gets a fresh clone
	res1 := tilecover.MergeUp(mkSet(in), maptile.Zoom(target))
	out := members(res1)
	if err := verifyMerge(inSet, out, Z, target); err != nil {
		return mustMerge, fmt.Errorf("MergeUp(%d tiles at zoom %d, %d): %v", len(in), Z, target, err)
	}
	if mustMerge && len(out) >= len(in) {
		return mustMerge, fmt.Errorf("MergeUp(%d tiles at zoom %d, %d): nothing was merged although a complete quad exists", len(in), Z, target)
	}
	res2 := tilecover.MergeUpPartial(mkSet(in), maptile.Zoom(target), 4)
	outP := members(res2)
	if err := verifyMerge(inSet, outP, Z, target); err != nil {
		return mustMerge, fmt.Errorf("MergeUpPartial(%d tiles at zoom %d, %d, 4): %v", len(in), Z, target, err)
	}
	if t, ok := sameSet(out, outP); !ok {
		return mustMerge, fmt.Errorf("MergeUp and MergeUpPartial(count=4) disagree on tile %v", t)
	}

	// the two results stay what they are when ANOTHER set is merged afterwards
	// (no state shared between calls): merge a different set with both
	// functions, then look at the first two results again
	other := otherSet(in, Z)
	_ = tilecover.MergeUp(mkSet(other), maptile.Zoom(target))
	_ = tilecover.MergeUpPartial(mkSet(other), maptile.Zoom(target), 4)
	if Z > 0 {
		_ = tilecover.MergeUp(mkSet(other), maptile.Zoom(target/2))
	}
	if t, ok := sameSet(out, members(res1)); !ok || len(res1) < len(out) {
		return mustMerge, fmt.Errorf("result of MergeUp(%d tiles at zoom %d, %d) changed when another set was merged afterwards (tile %v)", len(in), Z, target, t)
	}
	if t, ok := sameSet(outP, members(res2)); !ok || len(res2) < len(outP) {
		return mustMerge, fmt.Errorf("result of MergeUpPartial(%d tiles at zoom %d, %d, 4) changed when another set was merged afterwards (tile %v)", len(in), Z, target, t)
	}

	// results are independent values: scribble on both, merge the same input
	// again, and the fresh results are what the first ones were
	scribble(res1, Z)
	scribble(res2, Z)
	if t, ok := sameSet(out, members(tilecover.MergeUp(mkSet(in), maptile.Zoom(target)))); !ok {
		return mustMerge, fmt.Errorf("after writing into the returned sets, MergeUp(%d tiles at zoom %d, %d) gives a different result (tile %v): results are not independent values", len(in), Z, target, t)
	}
	if t, ok := sameSet(out, members(tilecover.MergeUpPartial(mkSet(in), maptile.Zoom(target), 4))); !ok {
		return mustMerge, fmt.Errorf("after writing into the returned sets, MergeUpPartial(%d tiles at zoom %d, %d, 4) gives a different result (tile %v): results are not independent values", len(in), Z, target, t)
	}
	return mustMerge, nil
}

// otherSet: a set of zoom Z different from in: the complete quad at the origin
// plus every input tile moved by (+2,+1) (wrapping at the edge of the world).
func otherSet(in []maptile.Tile, Z uint32) []maptile.Tile {
	n := uint32(1) << Z
	seen := map[maptile.Tile]bool{}
	var out []maptile.Tile
	add := func(x, y uint32) {
		t := tileOf(x%n, y%n, maptile.Zoom(Z))
		if !seen[t] {
			seen[t] = true
			out = append(out, t)
		}
	}
	add(0, 0)
	add(1, 0)
	add(0, 1)
	add(1, 1)
	for _, t := range in {
		add(t.X+2, t.Y+1)
	}
	return out
}

func verifyMerge(in maptile.Set, out map[maptile.Tile]bool, Z, target uint32) error {
	tiles := make([]maptile.Tile, 0, len(out))
	for t := range out {
		tiles = append(tiles, t)
	}
	sort.Slice(tiles, func(i, j int) bool {
		a, b := tiles[i], tiles[j]
		if a.Z != b.Z {
			return a.Z < b.Z
		}
		if a.Y != b.Y {
			return a.Y < b.Y
		}
		return a.X < b.X
	})
	var area uint64
	for _, t := range tiles {
		tz := uint32(t.Z)
		if tz < target {
			return fmt.Errorf("output tile %v is shallower than the requested zoom %d", t, target)
		}
		if tz > Z {
			return fmt.Errorf("output tile %v is deeper than the input zoom %d", t, Z)
		}
		if lim := uint64(1) << tz; uint64(t.X) >= lim || uint64(t.Y) >= lim {
			return fmt.Errorf("output tile %v is not a valid tile", t)
		}
		area += uint64(1) << (2 * (Z - tz))
	}
	// every input tile is covered by exactly one output tile
	for s := range in {
		cnt := 0
		var first maptile.Tile
		for zz := Z; ; zz-- {
			sh := Z - zz
			anc := tileOf(s.X>>sh, s.Y>>sh, maptile.Zoom(zz))
			if out[anc] {
				if cnt == 0 {
					first = anc
				}
				cnt++
				if cnt > 1 {
					return fmt.Errorf("output tiles %v and %v overlap (both contain input tile %v)", first, anc, s)
				}
			}
			if zz == target {
				break
			}
		}
		if cnt == 0 {
			return fmt.Errorf("input tile %v is not covered by the output", s)
		}
	}
	// ... and nothing else is covered: the areas (in input-zoom tiles) are equal
	if area != uint64(len(in)) {
		return fmt.Errorf("output covers %d input-zoom tiles, input has %d: area not kept", area, len(in))
	}
	for _, t := range tiles {
		if uint32(t.Z) <= target {
			continue
		}
		bx, by := t.X&^1, t.Y&^1
		if out[tileOf(bx, by, t.Z)] && out[tileOf(bx+1, by, t.Z)] && out[tileOf(bx, by+1, t.Z)] && out[tileOf(bx+1, by+1, t.Z)] {
			return fmt.Errorf("complete sibling quad of %v left unmerged above the requested zoom %d", t, target)
		}
	}
	return nil
}

// ---------------------------------------------------------------- replay

func TestReplay(t *testing.T) {
	_, raw, ok := stats.Replaying()
	if !ok {
		t.Skip("no replay file")
	}
	if name, _, _ := stats.Replaying(); name == "TestPropConcurrent" {
		var cs []Case
		if err := json.Unmarshal(raw, &cs); err != nil {
			t.Fatal(err)
		}
		for k := 0; k < 20; k++ {
			if err := stats.ParallelErr(len(cs), 100, func(i int) error { return checkCase(cs[i]) }); err != nil {
				t.Fatalf("replayed concurrent group still fails: %v", err)
			}
		}
		return
	}
	var c Case
	if err := json.Unmarshal(raw, &c); err != nil {
		t.Fatal(err)
	}
	if err := stats.Guard(func() error { return checkCase(c) }); err != nil {
		t.Fatalf("replayed case still fails: %v", err)
	}
}

// Audit of library calls on the oracle side (round I). The model, the
// expectation builders, the classifiers and the tolerances call NO function or
// method of paulmach/orb: projection (project/unproject), tile arithmetic
// (tileOf, shifts and masks for parents/siblings/validity), ring closedness and
// simplicity (simpleClosed: == on coordinate arrays, own orientation test),
// bound validity (validBound), set membership (members/sameSet), deep copy and
// bit comparison (internal/gen) are the harness's own. orb is called only as
// the operation under test (tilecover.*), and by two generator helpers whose
// output is an INPUT judged by the model: snapLat (maptile.Fraction, to find
// latitudes that orb itself maps onto exact tile rows) - no expectation is
// derived from it.
