package c14

// Size ladders (round L, class L1). Every size dimension of C14's inputs and
// outputs is driven through the ladder
//
//	{L-2 .. L+3, 1.5L+1 : L = 2^k, k = 6..24, and L = 10^k, k = 2..7} ∪ {4095, 4096, 4097, 65535, 65536}
//
// as far up as the dimension exists at zoom <= 22 and one case stays under ~2 s
// CPU / 1 GiB, with structured shapes:
//
//	segment   tiles crossed by ONE segment: horizontal, vertical, diagonal, shallow
//	          (top 2^22 = the width of the world at zoom 22; vertical 2^22-... rows
//	          inside |lat| < 85; diagonal counts steps = columns + rows)
//	cover     tiles in one cover: bound and rectangle polygon (one row, square),
//	          rectangle of three rows (the middle row is ONE scan-fill run of size-2
//	          tiles), thin triangle with two edges that each cross ~size/3 tiles
//	vertices  vertices of one line (zigzag between two rows) / of one ring (saw-tooth)
//	members   members of a multi-line / multi-point / multi-polygon / collection,
//	          with one enormous member (a segment of `huge` tiles) in first / middle /
//	          last position
//	rings     rings of one polygon (square holes in a long thin rectangle)
//	merge     tiles in the argument of MergeUp / MergeUpPartial (row-major prefix of
//	          an aligned power-of-two block: complete quads on many levels)
//
// The oracle is the same model (tile required iff a segment meets it shrunk by
// 1e-6, allowed iff grown by 1e-6, centre-inside tiles required, vertex rule)
// evaluated as a STREAM: the own walker segTiles enumerates the tiles of each
// segment in O(tiles) and looks each up in orb's set; every tile of orb's set
// is tested against the segments (few segments) or a table of allowed tiles
// (many segments). No second set is built for the multi-million-tile covers.

import (
	"fmt"
	"math"
	"sort"
	"testing"

	"github.com/paulmach/orb"
	"github.com/paulmach/orb/maptile"
	"github.com/paulmach/orb/maptile/tilecover"

	"verifharness/internal/gen"
	"verifharness/internal/stats"
)

// Large is the compact description of one rung (the geometry is rebuilt from it).
type Large struct {
	Dim   string `json:"dim"`
	Shape string `json:"shape"`
	Size  int    `json:"size"`
	Pos   int    `json:"pos"`  // direction / variant; members: 0 = no enormous member, 1/2/3 = first/middle/last
	Huge  int    `json:"huge"` // members: tiles crossed by the enormous member
}

// ladder: around every L in {2^k : k = 6..24} u {10^k : k = 2..7} the rungs
// L-2 .. L+3 and 1.5*L+1 (a limit L often shows only from L+2 on: one missing
// element can be masked by a closing vertex or a forced end tile), plus
// 4095..4097, 65535, 65536.
func ladder(top int) []int {
	m := map[int]bool{4095: true, 4096: true, 4097: true, 65535: true, 65536: true}
	var ls []int
	for k := 6; k <= 24; k++ {
		ls = append(ls, 1<<uint(k))
	}
	for k, p := 2, 100; k <= 7; k, p = k+1, p*10 {
		ls = append(ls, p)
	}
	for _, l := range ls {
		for d := -2; d <= 3; d++ {
			m[l+d] = true
		}
		m[l+l/2+1] = true
	}
	var out []int
	for v := range m {
		if v <= top {
			out = append(out, v)
		}
	}
	sort.Ints(out)
	return out
}

// ---------------------------------------------------------------- streamed model

type streamModel struct {
	z        uint32
	segs     [][2]pt              // every tile a segment meets (shrunk) is required
	interior func(f func(k tkey)) // further required tiles (polygon interiors)
	allow    func(k tkey) bool    // every tile of the cover satisfies it
	verts    []pt                 // vertex rule
	count    int                  // if >= 0: exact size of the cover
}

func (sm *streamModel) verify(set maptile.Set) error {
	n := uint64(1) << sm.z
	size := 0
	for t, v := range set {
		if !v {
			continue
		}
		size++
		if uint32(t.Z) != sm.z || uint64(t.X) >= n || uint64(t.Y) >= n {
			return fmt.Errorf("cover tile %v is not a valid tile of zoom %d", t, sm.z)
		}
		if !sm.allow(tkey{int64(t.X), int64(t.Y)}) {
			return fmt.Errorf("extra tile %v: the geometry does not come within %g tile of it (cover of %d tiles)", t, eps, len(set))
		}
	}
	var missing *tkey
	var why string
	look := func(k tkey, reason string) {
		if missing != nil {
			return
		}
		if k.x < 0 || k.y < 0 || uint64(k.x) >= n || uint64(k.y) >= n || !set[tileOf(uint32(k.x), uint32(k.y), sm.z)] {
			kk := k
			missing, why = &kk, reason
		}
	}
	for i, s := range sm.segs {
		if s[0] == s[1] {
			continue
		}
		segTiles(s[0], s[1], -eps, func(k tkey) { look(k, fmt.Sprintf("segment %d of %d passes through it", i, len(sm.segs))) })
		if missing != nil {
			break
		}
	}
	if missing == nil && sm.interior != nil {
		sm.interior(func(k tkey) { look(k, "its centre is inside the polygon") })
	}
	if missing != nil {
		return fmt.Errorf("missing tile (%d,%d,z%d): %s (cover of %d tiles)", missing.x, missing.y, sm.z, why, size)
	}
	for i, v := range sm.verts {
		found := false
		for _, tx := range []float64{math.Floor(v[0] - eps), math.Floor(v[0] + eps)} {
			for _, ty := range []float64{math.Floor(v[1] - eps), math.Floor(v[1] + eps)} {
				if tx >= 0 && ty >= 0 && tx < float64(n) && ty < float64(n) && set[tileOf(uint32(tx), uint32(ty), sm.z)] {
					found = true
				}
			}
		}
		if !found {
			return fmt.Errorf("vertex %d at tile position (%.17g, %.17g), zoom %d: none of the tiles within %g tile of it is in the cover (%d tiles)", i, v[0], v[1], sm.z, eps, size)
		}
	}
	if sm.count >= 0 && size != sm.count {
		return fmt.Errorf("cover has %d tiles, the geometry meets exactly %d", size, sm.count)
	}
	return nil
}

func allowBySegments(segs [][2]pt) func(k tkey) bool {
	if len(segs) <= 8 {
		return func(k tkey) bool {
			for _, s := range segs {
				if segTile(s[0], s[1], k, eps) {
					return true
				}
			}
			return false
		}
	}
	table := make(map[tkey]struct{}, len(segs)*2)
	for _, s := range segs {
		segTiles(s[0], s[1], eps, func(k tkey) { table[k] = struct{}{} })
	}
	return func(k tkey) bool { _, ok := table[k]; return ok }
}

func segsOf(ps []pt) [][2]pt {
	out := make([][2]pt, 0, len(ps))
	for i := 0; i+1 < len(ps); i++ {
		out = append(out, [2]pt{ps[i], ps[i+1]})
	}
	return out
}

// ---------------------------------------------------------------- shapes

// largeGeom builds the geometry of a rung in tile space at zoom z and returns
// it in lon/lat, or ok = false when the rung does not fit the world at this zoom.
func largeGeom(l Large, z uint32) (g orb.Geometry, ok bool) {
	n := worldN(z)
	S := float64(l.Size)
	up := func(x, y float64) orb.Point { return unproject(x, y, z) }
	// usable rows: |lat| < 84.99
	loY, hiY := math.Ceil(0.0017*n), math.Floor(0.9983*n)
	midY := math.Floor(0.45 * n)
	rev := func(ls orb.LineString) orb.LineString {
		if l.Pos%2 == 1 {
			for i, j := 0, len(ls)-1; i < j; i, j = i+1, j-1 {
				ls[i], ls[j] = ls[j], ls[i]
			}
		}
		return ls
	}
	switch l.Dim {
	case "segment":
		switch l.Shape {
		case "horizontal":
			if S > n {
				return nil, false
			}
			xs := math.Floor((n - S) / 2)
			return rev(orb.LineString{up(xs+0.3, midY+0.5), up(xs+S-1+0.7, midY+0.5)}), true
		case "vertical":
			if S > hiY-loY {
				return nil, false
			}
			ys := loY + math.Floor((hiY-loY-S)/2)
			return rev(orb.LineString{up(math.Floor(0.3*n)+0.5, ys+0.3), up(math.Floor(0.3*n)+0.5, ys+S-1+0.7)}), true
		case "diagonal":
			// S steps = columns + rows crossed
			L := S / 2
			if L+2 > hiY-loY || L+2 > n {
				return nil, false
			}
			xs, ys := math.Floor((n-L)/2), loY+math.Floor((hiY-loY-L)/2)
			if l.Pos/2%2 == 1 { // anti-diagonal
				return rev(orb.LineString{up(xs+0.3, ys+L+0.4), up(xs+0.3+L, ys+0.4)}), true
			}
			return rev(orb.LineString{up(xs+0.3, ys+0.4), up(xs+0.3+L, ys+0.4+L)}), true
		case "shallow":
			// S columns, S/1000 rows
			if S > n || S/1000+3 > hiY-loY {
				return nil, false
			}
			xs := math.Floor((n - S) / 2)
			return rev(orb.LineString{up(xs+0.3, midY+0.35), up(xs+S-1+0.7, midY+0.35+S/1000)}), true
		}
	case "cover":
		w, h := S, 1.0
		if l.Shape == "bound-square" || l.Shape == "rect-square" {
			w = math.Ceil(math.Sqrt(S))
			h = math.Ceil(S / w)
		}
		if l.Shape == "triangle" {
			w, h = math.Ceil(S/3), 2
		}
		if l.Shape == "rect-3rows" {
			w, h = S, 3 // the middle row is ONE fill run of S-2 tiles between the two vertical edges
		}
		if w+2 > n || h+2 > hiY-loY {
			return nil, false
		}
		xs, ys := math.Floor((n-w)/2), midY
		if ys+h+1 > hiY {
			ys = hiY - h - 1
		}
		x0, y0, x1, y1 := xs+0.3, ys+0.3, xs+w-1+0.7, ys+h-1+0.7
		a, b := up(x0, y1), up(x1, y0) // a: south-west, b: north-east
		switch l.Shape {
		case "bound-row", "bound-square":
			return orb.Bound{Min: a, Max: b}, true
		case "rect-row", "rect-square", "rect-3rows":
			r := orb.Ring{{a[0], a[1]}, {b[0], a[1]}, {b[0], b[1]}, {a[0], b[1]}, {a[0], a[1]}}
			if l.Pos%2 == 1 {
				r = orb.Ring{r[0], r[3], r[2], r[1], r[4]}
			}
			return orb.Polygon{r}, true
		case "triangle":
			// base along a row, apex 1.4 rows up at a third: two long shallow edges
			p, q, apex := up(x0, ys+1.8), up(x1, ys+1.8), up(x0+(x1-x0)/3, ys+0.4)
			r := orb.Ring{p, q, apex, p}
			if l.Pos%2 == 1 {
				r = orb.Ring{apex, q, p, apex}
			}
			return orb.Polygon{r}, true
		}
	case "vertices":
		N := l.Size
		width := 0.37 * float64(N)
		if width+2 > n {
			return nil, false
		}
		xs := math.Floor((n - width) / 2)
		switch l.Shape {
		case "zigzag-line":
			ls := make(orb.LineString, N)
			for i := range ls {
				ls[i] = up(xs+0.3+0.37*float64(i), midY+0.5+float64(i%2))
			}
			return rev(ls), true
		case "sawtooth-ring":
			// N-1 distinct vertices: N-3 teeth on top, two bottom corners, closing vertex
			if N < 6 {
				return nil, false
			}
			r := make(orb.Ring, 0, N)
			for i := 0; i < N-3; i++ {
				r = append(r, up(xs+0.3+0.37*float64(i), midY+0.5+float64(i%2)))
			}
			last := xs + 0.3 + 0.37*float64(N-4)
			r = append(r, up(last, midY+3.5), up(xs+0.3, midY+3.5))
			r = append(r, r[0])
			return orb.Polygon{r}, true
		}
	case "members":
		M := l.Size
		huge := float64(l.Huge)
		if float64(M)+huge+4 > n {
			return nil, false
		}
		xs := math.Floor((n - float64(M)) / 2)
		hugeLine := orb.LineString{up(0.3+math.Floor((n-huge)/2), midY+5.5), up(math.Floor((n-huge)/2)+huge-1+0.7, midY+5.5)}
		at := -1 // position of the enormous member
		if l.Huge == 0 {
			l.Pos = 0
		}
		switch l.Pos {
		case 1:
			at = 0
		case 2:
			at = M / 2
		case 3:
			at = M - 1
		}
		small := func(i int) (orb.Point, orb.Point, orb.Point) {
			x := xs + float64(i)
			return up(x+0.3, midY+0.3), up(x+0.8, midY+0.4), up(x+0.5, midY+0.8)
		}
		switch l.Shape {
		case "multiline":
			out := make(orb.MultiLineString, M)
			for i := range out {
				a, b, _ := small(i)
				out[i] = orb.LineString{a, b}
				if i == at {
					out[i] = hugeLine
				}
			}
			return out, true
		case "multipoint":
			out := make(orb.MultiPoint, M)
			for i := range out {
				out[i], _, _ = small(i)
			}
			return out, true
		case "multipolygon":
			out := make(orb.MultiPolygon, M)
			for i := range out {
				a, b, c := small(i)
				out[i] = orb.Polygon{orb.Ring{a, b, c, a}}
				if i == at {
					h0, h1 := hugeLine[0], hugeLine[1]
					h2 := up(math.Floor((n-huge)/2)+huge/2, midY+7.2)
					out[i] = orb.Polygon{orb.Ring{h0, h1, h2, h0}}
				}
			}
			return out, true
		case "collection":
			out := make(orb.Collection, M)
			for i := range out {
				a, b, c := small(i)
				switch i % 4 {
				case 0:
					out[i] = a
				case 1:
					out[i] = orb.LineString{a, b}
				case 2:
					out[i] = orb.Polygon{orb.Ring{a, b, c, a}}
				default:
					out[i] = orb.MultiPoint{b, c}
				}
				if i == at {
					out[i] = hugeLine
				}
			}
			return out, true
		}
	case "rings":
		H := float64(l.Size - 1) // l.Size rings = 1 outer + H holes
		if H+4 > n {
			return nil, false
		}
		xs := math.Floor((n - H - 2) / 2)
		p := make(orb.Polygon, 0, l.Size)
		a, b := up(xs+0.2, midY+1.8), up(xs+H+1.8, midY+0.2)
		p = append(p, orb.Ring{{a[0], a[1]}, {b[0], a[1]}, {b[0], b[1]}, {a[0], b[1]}, {a[0], a[1]}})
		for i := 0.0; i < H; i++ {
			x := xs + 1 + i
			c, d := up(x+0.3, midY+0.6), up(x+0.6, midY+0.3)
			p = append(p, orb.Ring{{c[0], c[1]}, {c[0], d[1]}, {d[0], d[1]}, {d[0], c[1]}, {c[0], c[1]}})
		}
		return p, true
	}
	return nil, false
}

// ---------------------------------------------------------------- evaluation

// modelOf builds the streamed model of a large geometry (its shapes are known
// to be simple by construction, so no O(n^2) simplicity test is made).
func modelOf(g orb.Geometry, z uint32) *streamModel {
	sm := &streamModel{z: z, count: -1}
	pointTiles := map[tkey]struct{}{} // tiles within eps of a point member
	var lineSegs [][2]pt
	var polys [][][]pt
	var add func(g orb.Geometry)
	add = func(g orb.Geometry) {
		switch v := g.(type) {
		case orb.Point:
			q := project(v, z)
			sm.verts = append(sm.verts, q)
			for _, tx := range []float64{math.Floor(q[0] - eps), math.Floor(q[0] + eps)} {
				for _, ty := range []float64{math.Floor(q[1] - eps), math.Floor(q[1] + eps)} {
					pointTiles[tkey{int64(tx), int64(ty)}] = struct{}{}
				}
			}
		case orb.MultiPoint:
			for _, p := range v {
				add(p)
			}
		case orb.LineString:
			ps := projectAll(v, z)
			lineSegs = append(lineSegs, segsOf(ps)...)
			if len(ps) <= 64 {
				sm.verts = append(sm.verts, ps...)
			} else {
				sm.verts = append(sm.verts, ps[0], ps[len(ps)/2], ps[len(ps)-1])
			}
		case orb.MultiLineString:
			for _, l := range v {
				add(l)
			}
		case orb.Polygon:
			rings := make([][]pt, len(v))
			for i, r := range v {
				rings[i] = projectAll(r, z)
				sm.segs = append(sm.segs, segsOf(rings[i])...)
			}
			polys = append(polys, rings)
		case orb.MultiPolygon:
			for _, p := range v {
				add(p)
			}
		case orb.Collection:
			for _, m := range v {
				add(m)
			}
		}
	}
	add(g)
	sm.segs = append(sm.segs, lineSegs...)
	lineAllow := func(k tkey) bool { return false }
	if len(lineSegs) > 0 {
		lineAllow = allowBySegments(lineSegs)
	}
	// polygons: no tile outside the tile-space bound of the polygon. Small
	// bounds go into a table, large ones are kept as rectangles.
	polyTiles := map[tkey]struct{}{}
	var bigBounds [][4]float64
	for _, rings := range polys {
		minx, miny, maxx, maxy := math.Inf(1), math.Inf(1), math.Inf(-1), math.Inf(-1)
		for _, r := range rings {
			for _, p := range r {
				minx, maxx = math.Min(minx, p[0]), math.Max(maxx, p[0])
				miny, maxy = math.Min(miny, p[1]), math.Max(maxy, p[1])
			}
		}
		if (maxx-minx+1)*(maxy-miny+1) > 64 {
			bigBounds = append(bigBounds, [4]float64{minx, miny, maxx, maxy})
			continue
		}
		for x := math.Floor(minx - eps); x <= math.Floor(maxx+eps); x++ {
			for y := math.Floor(miny - eps); y <= math.Floor(maxy+eps); y++ {
				polyTiles[tkey{int64(x), int64(y)}] = struct{}{}
			}
		}
	}
	sm.allow = func(k tkey) bool {
		if _, ok := pointTiles[k]; ok {
			return true
		}
		if _, ok := polyTiles[k]; ok {
			return true
		}
		x, y := float64(k.x), float64(k.y)
		for _, b := range bigBounds {
			if x+1+eps >= b[0] && x-eps <= b[2] && y+1+eps >= b[1] && y-eps <= b[3] {
				return true
			}
		}
		return lineAllow(k)
	}
	if len(polys) > 0 {
		sm.interior = func(f func(k tkey)) {
			for _, rings := range polys {
				centreInside(rings, f)
			}
		}
	}
	return sm
}

func evalLarge(c Case) (info, error) {
	inf := info{inDomain: true}
	if c.Large == nil || c.Z > 22 {
		return inf, fmt.Errorf("harness: bad large case")
	}
	l := *c.Large
	if l.Dim == "merge" {
		return inf, evalLargeMerge(l, c.Z, c.Target, &inf)
	}
	src, ok := largeGeom(l, c.Z)
	if !ok {
		return inf, fmt.Errorf("harness: rung %+v does not fit zoom %d", l, c.Z)
	}
	z := maptile.Zoom(c.Z)
	// the argument is laid out with watched spare capacity while that is cheap
	var g orb.Geometry = src
	var gd *guard
	var orig orb.Geometry
	guarded := countPoints(src) <= 1<<17
	if guarded {
		orig = gen.DeepCopy(src)
		g, gd = layOut(src, c.Layout)
	}
	sm := modelOf(src, c.Z)
	if b, isBound := src.(orb.Bound); isBound {
		// closed form: the bound was built from tile positions k+0.3 .. k'+0.7
		lo, hi := project(b.Min, c.Z), project(b.Max, c.Z)
		x0, x1, y0, y1 := math.Floor(lo[0]), math.Floor(hi[0]), math.Floor(hi[1]), math.Floor(lo[1])
		sm.count = int((x1 - x0 + 1) * (y1 - y0 + 1))
		sm.verts = []pt{lo, hi}
		sm.allow = func(k tkey) bool {
			return float64(k.x) >= x0 && float64(k.x) <= x1 && float64(k.y) >= y0 && float64(k.y) <= y1
		}
	}
	if l.Dim == "segment" && (l.Shape == "horizontal" || l.Shape == "vertical") {
		sm.count = l.Size // closed form for axis-parallel segments
	}
	set, err := tilecover.Geometry(g, z)
	if err != nil {
		return inf, fmt.Errorf("tilecover.Geometry returned an error for a simple geometry: %v", err)
	}
	if guarded {
		if same, what := gen.SameBits(g, orig); !same {
			return inf, fmt.Errorf("tile covers do not modify their input, but the geometry passed differs afterwards: %s", what)
		}
		if gd.check() != nil {
			stats.Class("layout-note:write into spare capacity of the argument beyond len (counted, not a failure)")
		}
	}
	inf.coverSize = len(set)
	inf.reqTiles, inf.reqRows = len(set), 2
	if err := sm.verify(set); err != nil {
		return inf, err
	}
	// the cover merged upward (covers up to 2^13 tiles, to keep the ladder cheap): a
	// meridian- or parallel-aligned line of > 4096 tiles holds tiles thousands of
	// rows / columns apart
	if len(set) <= 1<<13+8 {
		tiles := make([]maptile.Tile, 0, len(set))
		for t, v := range set {
			if v {
				tiles = append(tiles, t)
			}
		}
		for _, target := range []uint32{c.Target, c.Z - minU32(c.Z, 13)} {
			if err := mergeLight(tiles, c.Z, target); err != nil {
				return inf, err
			}
		}
	}
	return inf, nil
}

func minU32(a, b uint32) uint32 {
	if a < b {
		return a
	}
	return b
}

// mergeLight: MergeUp and MergeUpPartial(4) of the tiles, each judged by verifyMerge.
func mergeLight(in []maptile.Tile, Z, target uint32) error {
	inSet := mkSet(in)
	out := members(tilecover.MergeUp(mkSet(in), maptile.Zoom(target)))
	if err := verifyMerge(inSet, out, Z, target); err != nil {
		return fmt.Errorf("MergeUp(cover of %d tiles at zoom %d, %d): %v", len(in), Z, target, err)
	}
	outP := members(tilecover.MergeUpPartial(mkSet(in), maptile.Zoom(target), 4))
	if err := verifyMerge(inSet, outP, Z, target); err != nil {
		return fmt.Errorf("MergeUpPartial(cover of %d tiles at zoom %d, %d, 4): %v", len(in), Z, target, err)
	}
	if t, ok := sameSet(out, outP); !ok {
		return fmt.Errorf("MergeUp and MergeUpPartial(count=4) disagree on tile %v", t)
	}
	return nil
}

// largeTiles: the first size tiles, row-major, of the aligned W x W block
// (W the power of two with W*W >= size) at the origin-side corner of zoom Z.
func largeTiles(size int, Z uint32) ([]maptile.Tile, bool) {
	W := 1
	for W*W < size {
		W *= 2
	}
	if uint64(W) > uint64(1)<<Z {
		return nil, false
	}
	out := make([]maptile.Tile, 0, size)
	for i := 0; i < size; i++ {
		out = append(out, tileOf(uint32(i%W), uint32(i/W), Z))
	}
	return out, true
}

func evalLargeMerge(l Large, Z, target uint32, inf *info) error {
	in, ok := largeTiles(l.Size, Z)
	if !ok || target > Z {
		return fmt.Errorf("harness: merge rung %+v does not fit zoom %d", l, Z)
	}
	inf.coverSize = len(in)
	inSet := mkSet(in)
	out := members(tilecover.MergeUp(mkSet(in), maptile.Zoom(target)))
	if err := verifyMerge(inSet, out, Z, target); err != nil {
		return fmt.Errorf("MergeUp(%d tiles at zoom %d, %d): %v", len(in), Z, target, err)
	}
	inf.mergedQuad = len(out) < len(in)
	outP := members(tilecover.MergeUpPartial(mkSet(in), maptile.Zoom(target), 4))
	if err := verifyMerge(inSet, outP, Z, target); err != nil {
		return fmt.Errorf("MergeUpPartial(%d tiles at zoom %d, %d, 4): %v", len(in), Z, target, err)
	}
	if t, ok := sameSet(out, outP); !ok {
		return fmt.Errorf("MergeUp and MergeUpPartial(count=4) disagree on tile %v", t)
	}
	return nil
}

// ---------------------------------------------------------------- the ladders

type ladderDim struct {
	name      string
	shapes    []string
	cheap     bool // < 1.2 us CPU per size unit: every rung <= 2^17+3 is in the quick tier
	thorTop   int
	positions int
	bigShapes []string // shapes that climb above 2^17+3 in the thorough tier
}

// Where each ladder stops and why (also in rule.txt):
//
//	segment, cover: 2^22 = 4,194,304 tiles, the width of the world at zoom 22 (the
//	  deepest zoom of the quantifier); vertical and diagonal segments stop at the
//	  last rung that fits between latitudes +-85 (2^22-... rows). 2^23, 2^24 and 10^7
//	  tiles do not exist on one row or column at zoom <= 22.
//	vertices, members, rings, merge: 2^20+1 (1-3 s CPU, 0.3-0.6 GiB per case).
//	quick tier: see inTier (a rung above 2^17+3 costs > 0.3 s CPU).
var ladderDims = []ladderDim{
	{"segment", []string{"horizontal", "vertical", "diagonal", "shallow"}, true, 1<<22 + 3, 4, nil},
	{"cover", []string{"bound-row", "bound-square", "rect-row", "rect-square", "rect-3rows", "triangle"}, true, 1<<22 + 3, 2, nil},
	{"vertices", []string{"zigzag-line", "sawtooth-ring"}, false, 1<<20 + 3, 2, nil},
	{"members", []string{"multiline", "multipoint", "multipolygon", "collection"}, false, 1<<20 + 3, 4, []string{"multiline", "collection"}},
	{"rings", []string{"holes"}, false, 1<<20 + 3, 1, nil},
	{"merge", []string{"block"}, false, 1<<20 + 3, 1, nil},
}

// inTier decides which rungs run: quick = every rung <= 2^17+3 of the cheap
// dimensions (segment, cover); of the others (2-6 us CPU per vertex / member /
// ring / tile) every rung <= 4099 and 65535..65538. thorough = everything up to
// the top of the dimension (the costlier member shapes stop at 2^17+3).
func (d ladderDim) inTier(shape string, sz int) bool {
	if !stats.Thorough() {
		if d.name == "segment" && shape == "horizontal" && sz == 1<<20+3 {
			return true // one rung above 2^20 steps of one segment also in quick (~1 s CPU, 0.1 GiB)
		}
		if d.cheap {
			return sz <= 1<<17+3
		}
		return sz <= 4099 || (sz >= 65535 && sz <= 65538)
	}
	if sz > d.thorTop {
		return false
	}
	if sz > 1<<17+3 && d.bigShapes != nil {
		for _, b := range d.bigShapes {
			if b == shape {
				return true
			}
		}
		return false
	}
	return true
}

func neighbourhood(size int) bool {
	for _, c := range []int{64, 512, 1024, 2048, 4096, 65536} {
		if size >= c-1 && size <= c+1 {
			return true
		}
	}
	return false
}

// minZoom: the smallest zoom at which the rung fits.
func minZoom(l Large) (uint32, bool) {
	for z := uint32(1); z <= 22; z++ {
		if l.Dim == "merge" {
			if _, ok := largeTiles(l.Size, z); ok {
				return z, true
			}
			continue
		}
		if fitsZoom(l, z) {
			return z, true
		}
	}
	return 0, false
}

// fitsZoom is largeGeom's own fit test without building the geometry for big rungs.
func fitsZoom(l Large, z uint32) bool {
	n := worldN(z)
	S := float64(l.Size)
	rows := math.Floor(0.9983*n) - math.Ceil(0.0017*n)
	switch l.Dim {
	case "segment":
		switch l.Shape {
		case "horizontal":
			return S <= n
		case "vertical":
			return S <= rows
		case "diagonal":
			return S/2+2 <= rows && S/2+2 <= n
		case "shallow":
			return S <= n && S/1000+3 <= rows
		}
	case "cover":
		w, h := S, 1.0
		if l.Shape == "bound-square" || l.Shape == "rect-square" {
			w = math.Ceil(math.Sqrt(S))
			h = math.Ceil(S / w)
		}
		if l.Shape == "triangle" {
			w, h = math.Ceil(S/3), 2
		}
		if l.Shape == "rect-3rows" {
			w, h = S, 3
		}
		return w+2 <= n && h+2 <= rows
	case "vertices":
		if l.Shape == "sawtooth-ring" && l.Size < 6 {
			return false
		}
		return 0.37*S+2 <= n && rows > 8
	case "members":
		return S+float64(l.Huge)+4 <= n && rows > 12
	case "rings":
		return S+3 <= n && rows > 4
	}
	return false
}

// TestEnumLarge runs every ladder (see the head of this file).
func TestEnumLarge(t *testing.T) {
	assumptions()
	stats.Assume("size ladders: structured shapes (one segment over up to 2^22 tiles, covers of up to 2^22 tiles, lines/rings/multi-geometries/polygons/merge inputs of up to 2^20+1 vertices/members/rings/tiles) are decided by the same model evaluated as a stream over the own O(tiles) walker; above 2^17 points the argument is passed as built (no layout guard)")
	var idx, size int64
	run := func(l Large, z, target uint32) {
		idx++
		size++
		if !stats.Mine(idx) {
			return
		}
		c := Case{Kind: "large", Class: "large/" + l.Dim + "/" + l.Shape, Z: z, Target: target, Large: &l, Layout: layouts[idx%int64(len(layouts))]}
		stats.Eval("TestEnumLarge", 1)
		var inf info
		stats.TryT(t, "TestEnumLarge", c, func() error {
			var err error
			inf, err = evaluate(c)
			return err
		})
		stats.Class("kind:" + c.Class)
		switch {
		case l.Size > 1<<20:
			stats.Class("ladder:rung > 2^20")
		case l.Size > 1<<17+1:
			stats.Class("ladder:rung 2^17+2 .. 2^20")
		case l.Size >= 4095:
			stats.Class("ladder:rung 4095 .. 2^17+1")
		default:
			stats.Class("ladder:rung < 4095")
		}
		if inf.coverSize >= 3 {
			stats.NonTrivial(gen.JSON(c))
			if l.Size >= 65535 && stats.WantSample("large") {
				stats.Sample("large", c)
			}
		}
	}
	for _, d := range ladderDims {
		for _, shape := range d.shapes {
			for ri, sz := range ladder(d.thorTop) {
				if !d.inTier(shape, sz) {
					continue
				}
				l := Large{Dim: d.name, Shape: shape, Size: sz, Pos: ri % d.positions}
				if d.name == "members" {
					// the enormous member only next to small and mid-sized crowds, and not for
					// multi-points (whose members cannot be enormous)
					l.Pos, l.Huge = 0, 0
					if shape != "multipoint" && (sz == 64 || sz == 4096 || sz == 65536) {
						l.Pos, l.Huge = 1+ri%3, 1<<17+1
						if stats.Thorough() && sz <= 4096 {
							l.Huge = 1<<20 + 1
						}
					}
				}
				zmin, ok := minZoom(l)
				if !ok {
					continue // the rung does not exist at zoom <= 22 (see ladderDims)
				}
				if d.name == "merge" {
					deep := uint32(0)
					if 22 > 11 {
						deep = 22 - 11
					}
					run(l, 22, deep)
					if neighbourhood(sz) {
						run(l, 22, 22)
						run(l, 22, 21)
						run(l, zmin, 0)
					}
					continue
				}
				run(l, 22, enumTarget(22))
				if zmin < 22 && (neighbourhood(sz) || sz > 1<<20) {
					run(l, zmin, enumTarget(zmin))
					if neighbourhood(sz) && d.cheap {
						for p := 0; p < d.positions; p++ {
							if p != l.Pos && d.name != "members" {
								lp := l
								lp.Pos = p
								run(lp, 22, enumTarget(22))
							}
						}
					}
				}
			}
		}
	}
	stats.Subspace("size ladders {L-2..L+3, 1.5L+1 : L = 2^k (k=6..24), 10^k (k=2..7)} u {4095..4097,65535,65536} for tiles per segment (4 directions), tiles per cover and per scan-fill run (6 shapes), vertices per line/ring, members per multi-geometry (enormous member first/middle/last), rings per polygon, tiles per merge input; quick: rungs <= 2^17+3 (segment, cover) / <= 4099 and 65535..65538 (others); thorough: up to 2^22 (segment, cover: the world is 2^22 tiles wide at zoom 22) / 2^20+3 (others)", size, true)
}
