package c14

// Generators. Shapes are built in TILE SPACE at the case's zoom (so that size,
// thinness and alignment with the tile grid are controlled), converted to
// longitude/latitude by the inverse mercator formula, and only the lon/lat
// geometry is stored in the case. The oracle re-projects from lon/lat, so the
// round trip's rounding (~1e-10 tile) is part of the input, not of the check.

import (
	"fmt"
	"math"
	"sort"
	"strings"
	"testing"

	"github.com/paulmach/orb"
	"github.com/paulmach/orb/maptile"
	"pgregory.net/rapid"

	"verifharness/internal/gen"
	"verifharness/internal/stats"
)

type tspace struct {
	z                     uint32
	n, lox, hix, loy, hiy float64
}

// the domain: |lon| < 179.99997, |lat| < 84.9988 - inside the quantifier's open ranges
func newTS(z uint32) tspace {
	n := worldN(z)
	return tspace{z, n, 1e-7 * n, (1 - 1e-7) * n, 0.00165 * n, 0.99835 * n}
}

func (s tspace) clamp(x, y float64) (float64, float64) {
	return math.Max(s.lox, math.Min(s.hix, x)), math.Max(s.loy, math.Min(s.hiy, y))
}

// centre draws a centre such that a shape of the given radius stays in the domain.
func (s tspace) centre(t *rapid.T, margin float64) (float64, float64) {
	margin = math.Min(margin, 0.49*s.n)
	x := rapid.Float64Range(s.lox+margin, s.hix-margin).Draw(t, "cx")
	loy, hiy := s.loy+margin, s.hiy-margin
	var y float64
	if rapid.IntRange(0, 7).Draw(t, "eq") == 0 {
		// near the equator: tile y = n/2 is the one row boundary that orb computes exactly
		y = s.n/2 + rapid.Float64Range(-2, 2).Draw(t, "cyeq")
		y = math.Max(loy, math.Min(hiy, y))
	} else {
		y = rapid.Float64Range(loy, hiy).Draw(t, "cy")
	}
	return x, y
}

// snapLat looks among the neighbouring latitudes for one that orb's own
// projection maps to exactly wantY (hostile-input finder; generation only).
func snapLat(p orb.Point, z uint32, wantY float64) orb.Point {
	up, down := p[1], p[1]
	for k := 0; k < 8; k++ {
		if maptile.Fraction(orb.Point{p[0], up}, maptile.Zoom(z))[1] == wantY {
			return orb.Point{p[0], up}
		}
		if maptile.Fraction(orb.Point{p[0], down}, maptile.Zoom(z))[1] == wantY {
			return orb.Point{p[0], down}
		}
		up, down = math.Nextafter(up, 90), math.Nextafter(down, -90)
	}
	return p
}

// vertex converts a tile-space position to lon/lat; snap puts it on the
// half-tile lattice first.
func (s tspace) vertex(x, y float64, snap bool) orb.Point {
	if snap {
		x, y = math.Round(2*x)/2, math.Round(2*y)/2
	}
	x, y = s.clamp(x, y)
	p := unproject(x, y, s.z)
	if snap && 2*y == math.Floor(2*y) {
		p = snapLat(p, s.z, y)
	}
	return p
}

func logUniform(t *rapid.T, lo, hi float64, label string) float64 {
	return math.Exp(rapid.Float64Range(math.Log(lo), math.Log(hi)).Draw(t, label))
}

// ---------------------------------------------------------------- lines

func genLine(t *rapid.T, s tspace) (orb.LineString, string) {
	nv := rapid.IntRange(2, 6).Draw(t, "nv")
	style := rapid.IntRange(0, 10).Draw(t, "lstyle")
	span := logUniform(t, 0.05, 8, "lspan")
	name := "general"
	switch {
	case style >= 4 && style <= 5:
		name = "snapped"
	case style >= 6 && style <= 7:
		name = "axis"
	case style == 8:
		name = "repeats"
	case style == 9:
		name = "long"
		span = rapid.Float64Range(8, 300).Draw(t, "llong")
	case style == 10:
		name = "diagonal"
	}
	span = math.Min(span, 0.9*s.n)
	cx, cy := s.centre(t, span/2)
	ls := make(orb.LineString, nv)
	for i := range ls {
		x := cx + rapid.Float64Range(-0.5, 0.5).Draw(t, "ux")*span
		y := cy + rapid.Float64Range(-0.5, 0.5).Draw(t, "uy")*span
		snap := name == "snapped" && rapid.IntRange(0, 2).Draw(t, "snap") > 0
		if name == "diagonal" {
			// lattice corners joined by 45-degree steps: the walk meets tile corners exactly
			bx, by := math.Round(cx), math.Round(cy)
			k := float64(rapid.IntRange(-4, 4).Draw(t, "dk"))
			sgn := float64(rapid.SampledFrom([]int{-1, 1}).Draw(t, "dsgn"))
			x, y, snap = bx+k, by+sgn*k, true
			if rapid.IntRange(0, 3).Draw(t, "doff") == 0 {
				x += 0.5
				y += sgn * 0.5
			}
		}
		ls[i] = s.vertex(x, y, snap)
		if i > 0 {
			switch {
			case name == "axis":
				ax := rapid.IntRange(0, 1).Draw(t, "axis")
				ls[i][ax] = ls[i-1][ax]
			case name == "repeats" && rapid.IntRange(0, 2).Draw(t, "rep") == 0:
				ls[i] = ls[i-1]
			}
		}
	}
	same := true
	for _, p := range ls {
		if p != ls[0] {
			same = false
		}
	}
	if same {
		x, y := s.clamp(cx+0.37*span, cy+0.21*span)
		ls[nv-1] = unproject(x, y, s.z)
		if ls[nv-1] == ls[0] {
			x, y = s.clamp(cx-0.37*span, cy-0.21*span)
			ls[nv-1] = unproject(x, y, s.z)
		}
	}
	return ls, name
}

// ---------------------------------------------------------------- polygons

func starUnit(t *rapid.T, nv int) []pt {
	jit := math.Min(0.8, float64(nv)/2-1-0.05)
	ps := make([]pt, nv)
	for i := range ps {
		u := rapid.Float64Range(0, jit).Draw(t, "su")
		r := rapid.Float64Range(0.3, 1).Draw(t, "sr")
		a := 2 * math.Pi * (float64(i) + u) / float64(nv)
		ps[i] = pt{r * math.Cos(a), r * math.Sin(a)}
	}
	return ps
}

func distOriginSeg(a, b pt) float64 {
	dx, dy := b[0]-a[0], b[1]-a[1]
	l2 := dx*dx + dy*dy
	u := 0.0
	if l2 > 0 {
		u = math.Max(0, math.Min(1, -(a[0]*dx+a[1]*dy)/l2))
	}
	return math.Hypot(a[0]+u*dx, a[1]+u*dy)
}

func inradius(ps []pt) float64 {
	d := math.Inf(1)
	for i := range ps {
		d = math.Min(d, distOriginSeg(ps[i], ps[(i+1)%len(ps)]))
	}
	return d
}

// combUnit: a base bar with k upright teeth, in [-1,1]^2; simple by construction.
func combUnit(t *rapid.T) []pt {
	k := rapid.IntRange(2, 4).Draw(t, "teeth")
	xs := make([]float64, 2*k)
	for i := range xs {
		xs[i] = -1 + 2*float64(i)/float64(2*k-1)
	}
	xs[2*k-1] = 1
	ps := []pt{{-1, -1}, {1, -1}}
	for j := k - 1; j >= 0; j-- {
		xl, xr := xs[2*j], xs[2*j+1]
		h := rapid.Float64Range(-0.1, 1).Draw(t, "toothH")
		ps = append(ps, pt{xr, h}, pt{xl, h})
		if j > 0 {
			g := rapid.Float64Range(-0.7, -0.2).Draw(t, "gapH")
			ps = append(ps, pt{xl, g}, pt{xs[2*j-1], g})
		}
	}
	// the last tooth's left edge is x = -1, closing down to (-1,-1)
	return ps
}

type affine struct{ a, b, c, d, tx, ty float64 }

func (m affine) apply(p pt) pt {
	return pt{m.a*p[0] + m.b*p[1] + m.tx, m.c*p[0] + m.d*p[1] + m.ty}
}

func rotateStart(t *rapid.T, ps []pt) []pt {
	k := rapid.IntRange(0, len(ps)-1).Draw(t, "start")
	out := append(append([]pt{}, ps[k:]...), ps[:k]...)
	if rapid.Bool().Draw(t, "rev") {
		for i, j := 0, len(out)-1; i < j; i, j = i+1, j-1 {
			out[i], out[j] = out[j], out[i]
		}
	}
	return out
}

func (s tspace) ring(ps []pt, snap bool) orb.Ring {
	r := make(orb.Ring, 0, len(ps)+1)
	for _, p := range ps {
		r = append(r, s.vertex(p[0], p[1], snap))
	}
	return append(r, r[0])
}

func genPolygon(t *rapid.T, s tspace) (orb.Polygon, string) {
	shape := rapid.IntRange(0, 9).Draw(t, "pshape")
	if (shape == 7 || shape == 8) && s.z < 3 {
		shape = 0
	}
	switch {
	case shape == 7 || shape == 8:
		return genGridStar(t, s), "gridstar"
	case shape == 9:
		return genRect(t, s), "rect"
	}

	// size (radius of the unit shape in tiles)
	var R float64
	sizeName := ""
	switch sz := rapid.IntRange(0, 29).Draw(t, "psize"); {
	case sz < 15:
		R = logUniform(t, 0.025, 10, "R")
	case sz < 21:
		R, sizeName = logUniform(t, 0.005, 0.3, "Rtiny"), "-tiny"
	case sz < 29:
		R = rapid.Float64Range(1.5, 12).Draw(t, "Rmid")
	default:
		R, sizeName = rapid.Float64Range(20, 150).Draw(t, "Rbig"), "-big"
	}
	R = math.Min(R, 0.3*s.n)
	thin := 1.0
	if rapid.IntRange(0, 3).Draw(t, "thin") == 0 {
		thin = math.Pow(10, -rapid.Float64Range(1, 3).Draw(t, "thinexp"))
		sizeName += "-thin"
	}
	var m affine
	switch rapid.IntRange(0, 3).Draw(t, "rot") {
	case 0:
		m = affine{a: R, d: R * thin}
	case 1:
		m = affine{b: R * thin, c: R}
	default:
		phi := rapid.Float64Range(0, 2*math.Pi).Draw(t, "phi")
		co, si := math.Cos(phi), math.Sin(phi)
		m = affine{a: R * co, b: -R * thin * si, c: R * si, d: R * thin * co}
	}
	m.tx, m.ty = s.centre(t, 1.4143*R)

	var unit [][]pt
	name := "star"
	if shape >= 5 {
		name = "comb"
		unit = [][]pt{combUnit(t)}
	} else {
		nv := rapid.IntRange(3, 12).Draw(t, "pnv")
		outer := starUnit(t, nv)
		unit = [][]pt{outer}
		d := inradius(outer)
		switch h := rapid.IntRange(0, 9).Draw(t, "holes"); {
		case h >= 6 && h <= 7:
			hole := starUnit(t, rapid.IntRange(3, 6).Draw(t, "hnv"))
			for i := range hole {
				hole[i] = pt{0.8 * d * hole[i][0], 0.8 * d * hole[i][1]}
			}
			unit = append(unit, hole)
			name = "star-hole"
		case h >= 8:
			for _, sx := range []float64{-0.5, 0.5} {
				hole := starUnit(t, rapid.IntRange(3, 5).Draw(t, "hnv2"))
				for i := range hole {
					hole[i] = pt{sx*d + 0.4*d*hole[i][0], 0.4 * d * hole[i][1]}
				}
				unit = append(unit, hole)
			}
			name = "star-2holes"
		}
	}
	poly := make(orb.Polygon, len(unit))
	for i, u := range unit {
		u = rotateStart(t, u)
		ps := make([]pt, len(u))
		for j := range u {
			ps[j] = m.apply(u[j])
		}
		poly[i] = s.ring(ps, false)
	}
	return poly, name + sizeName
}

// genGridStar: distinct half-tile lattice points sorted by angle around an
// off-lattice centre with every angular gap < pi: star-shaped, hence simple,
// with vertices exactly on tile edges and corners (x exact; y exact where a
// neighbouring latitude maps to it).
func genGridStar(t *rapid.T, s tspace) orb.Polygon {
	n := int(s.n)
	w := rapid.IntRange(1, minInt(6, n-3)).Draw(t, "gw")
	res := rapid.SampledFrom([]float64{1, 0.5}).Draw(t, "gres")
	loX, hiX := maxInt(1, int(math.Ceil(s.lox))), int(math.Floor(s.hix))-w
	loY, hiY := maxInt(1, int(math.Ceil(s.loy))), int(math.Floor(s.hiy))-w
	bx := float64(rapid.IntRange(loX, hiX).Draw(t, "gbx"))
	by := float64(rapid.IntRange(loY, hiY).Draw(t, "gby"))
	if rapid.IntRange(0, 3).Draw(t, "geq") == 0 {
		by = math.Max(float64(loY), math.Min(float64(hiY), float64(n/2-w/2-rapid.IntRange(0, 1).Draw(t, "geqo"))))
	}
	steps := int(float64(w) / res)
	cx, cy := bx+float64(w)/2+0.0318309886, by+float64(w)/2+0.0271828183
	m := rapid.IntRange(3, 10).Draw(t, "gm")
	type ap struct {
		p   pt
		ang float64
	}
	var pts []ap
	seen := map[pt]bool{}
	for i := 0; i < m; i++ {
		p := pt{bx + float64(rapid.IntRange(0, steps).Draw(t, "gi"))*res, by + float64(rapid.IntRange(0, steps).Draw(t, "gj"))*res}
		if seen[p] {
			continue
		}
		seen[p] = true
		pts = append(pts, ap{p, math.Atan2(p[1]-cy, p[0]-cx)})
	}
	sort.Slice(pts, func(i, j int) bool { return pts[i].ang < pts[j].ang })
	ok := len(pts) >= 3
	for i := 0; ok && i < len(pts); i++ {
		next := pts[(i+1)%len(pts)].ang
		if i == len(pts)-1 {
			next += 2 * math.Pi
		}
		gap := next - pts[i].ang
		if gap < 1e-9 || gap > math.Pi-1e-6 {
			ok = false
		}
	}
	var ps []pt
	if ok {
		for _, a := range pts {
			ps = append(ps, a.p)
		}
	} else {
		fw := float64(w)
		ps = []pt{{bx, by}, {bx + fw, by}, {bx + fw, by + fw}, {bx, by + fw}}
	}
	ps = rotateStart(t, ps)
	return orb.Polygon{s.ring(ps, true)}
}

func minInt(a, b int) int {
	if a < b {
		return a
	}
	return b
}

func rectRing(a, b orb.Point) orb.Ring {
	return orb.Ring{{a[0], a[1]}, {b[0], a[1]}, {b[0], b[1]}, {a[0], b[1]}, {a[0], a[1]}}
}

// genRect: exactly axis-aligned rectangle (shared lon/lat values), optionally
// lattice aligned, optionally with a rectangular hole.
func genRect(t *rapid.T, s tspace) orb.Polygon {
	w := logUniform(t, 0.02, 12, "rw")
	h := logUniform(t, 0.02, 12, "rh")
	w, h = math.Min(w, 0.6*s.n), math.Min(h, 0.6*s.n)
	cx, cy := s.centre(t, math.Max(w, h)/2)
	snap := rapid.Bool().Draw(t, "rsnap")
	a := s.vertex(cx-w/2, cy-h/2, snap)
	b := s.vertex(cx+w/2, cy+h/2, snap)
	if a[0] == b[0] || a[1] == b[1] {
		// snapped to nothing: fall back to the unsnapped corners
		a, b = s.vertex(cx-w/2, cy-h/2, false), s.vertex(cx+w/2, cy+h/2, false)
	}
	poly := orb.Polygon{rectRing(a, b)}
	if rapid.IntRange(0, 2).Draw(t, "rhole") == 0 {
		fx0 := rapid.Float64Range(0.1, 0.4).Draw(t, "hx0")
		fx1 := rapid.Float64Range(0.6, 0.9).Draw(t, "hx1")
		fy0 := rapid.Float64Range(0.1, 0.4).Draw(t, "hy0")
		fy1 := rapid.Float64Range(0.6, 0.9).Draw(t, "hy1")
		pa, pb := project(a, s.z), project(b, s.z)
		ha := unproject(pa[0]+fx0*(pb[0]-pa[0]), pa[1]+fy0*(pb[1]-pa[1]), s.z)
		hb := unproject(pa[0]+fx1*(pb[0]-pa[0]), pa[1]+fy1*(pb[1]-pa[1]), s.z)
		poly = append(poly, rectRing(ha, hb))
	}
	if rapid.Bool().Draw(t, "rrev") {
		for _, r := range poly {
			for i, j := 0, len(r)-1; i < j; i, j = i+1, j-1 {
				r[i], r[j] = r[j], r[i]
			}
		}
	}
	return poly
}

// ---------------------------------------------------------------- other kinds

// negZero turns an exactly zero longitude / latitude into -0 half of the time.
func negZero(t *rapid.T, p orb.Point) orb.Point {
	for d := 0; d < 2; d++ {
		if p[d] == 0 && rapid.Bool().Draw(t, "negzero") {
			p[d] = math.Copysign(0, -1)
		}
	}
	return p
}

func genPoint(t *rapid.T, s tspace) orb.Point {
	x, y := s.centre(t, 0)
	return negZero(t, s.vertex(x, y, rapid.IntRange(0, 3).Draw(t, "psnap") == 0))
}

func genBound(t *rapid.T, s tspace) orb.Bound {
	w := rapid.Float64Range(0, 1).Draw(t, "bw")
	h := rapid.Float64Range(0, 1).Draw(t, "bh")
	scale := logUniform(t, 0.05, 8, "bscale")
	w, h = math.Min(w*scale, 0.6*s.n), math.Min(h*scale, 0.6*s.n)
	switch rapid.IntRange(0, 7).Draw(t, "bdeg") {
	case 0:
		w = 0
	case 1:
		h = 0
	case 2:
		w, h = 0, 0
	}
	cx, cy := s.centre(t, math.Max(w, h)/2)
	snap := rapid.IntRange(0, 2).Draw(t, "bsnap") == 0
	a := s.vertex(cx-w/2, cy+h/2, snap) // larger tile y = smaller latitude
	b := s.vertex(cx+w/2, cy-h/2, snap)
	if w == 0 {
		b[0] = a[0]
	}
	if h == 0 {
		b[1] = a[1]
	}
	bd := orb.Bound{Min: negZero(t, orb.Point{math.Min(a[0], b[0]), math.Min(a[1], b[1])}), Max: negZero(t, orb.Point{math.Max(a[0], b[0]), math.Max(a[1], b[1])})}
	// inverted on one or both axes (outside the property: nothing required, only a
	// tile holding both corners is allowed); tilecover.Bound returns the empty set
	switch rapid.IntRange(0, 15).Draw(t, "binv") {
	case 13:
		bd.Min[0], bd.Max[0] = bd.Max[0], bd.Min[0]
	case 14:
		bd.Min[1], bd.Max[1] = bd.Max[1], bd.Min[1]
	case 15:
		bd.Min, bd.Max = bd.Max, bd.Min
	}
	return bd
}

// genDegenerate: members outside the quantifier (no positive length / not a
// simple closed ring). Only totality and "no extra tile" are checked on them.
func genDegenerate(t *rapid.T, s tspace) orb.Geometry {
	p := genPoint(t, s)
	pp := project(p, s.z)
	qx, qy := s.clamp(pp[0]+rapid.Float64Range(-2, 2).Draw(t, "dqx"), pp[1]+rapid.Float64Range(-2, 2).Draw(t, "dqy"))
	q := unproject(qx, qy, s.z)
	switch rapid.IntRange(0, 11).Draw(t, "deg") {
	case 10:
		return orb.Ring{p, q}
	case 11:
		return orb.Polygon{orb.Ring{p, q}, orb.Ring{q}}
	case 0:
		return orb.LineString{}
	case 1:
		return orb.LineString{p}
	case 2:
		return orb.LineString{p, p, p}
	case 3:
		return orb.Polygon{}
	case 4:
		return orb.Polygon{orb.Ring{}}
	case 5:
		return orb.Polygon{orb.Ring{p, p, p, p}}
	case 6:
		return orb.Ring{p, q, p}
	case 7:
		return orb.MultiPolygon{orb.Polygon{}, orb.Polygon{orb.Ring{p}}}
	case 8:
		return orb.MultiLineString{orb.LineString{}, orb.LineString{p, p}}
	}
	return orb.Collection{orb.LineString{p}, orb.Polygon{orb.Ring{p, p, p, p}}, orb.MultiPoint{}}
}

// genGeom draws one geometry and the name of its generator class.
func genGeom(t *rapid.T, s tspace, depth int) (orb.Geometry, string) {
	hi := 99
	switch {
	case depth == 1:
		hi = 97 // collections inside collections (down to depth 3 with a cluster), no degenerate members
	case depth > 1:
		hi = 93
	}
	k := rapid.IntRange(0, hi).Draw(t, "kind")
	switch {
	case k < 34:
		ls, name := genLine(t, s)
		return ls, "line/" + name
	case k < 68:
		p, name := genPolygon(t, s)
		return p, "polygon/" + name
	case k < 72:
		return genPoint(t, s), "point"
	case k < 75:
		mp := make(orb.MultiPoint, rapid.IntRange(0, 5).Draw(t, "nmp"))
		for i := range mp {
			mp[i] = genPoint(t, s)
		}
		return mp, "multipoint"
	case k < 80:
		return genBound(t, s), "bound"
	case k < 84:
		mls := make(orb.MultiLineString, rapid.IntRange(1, 3).Draw(t, "nml"))
		for i := range mls {
			mls[i], _ = genLine(t, s)
		}
		return mls, "multiline"
	case k < 88:
		mp := make(orb.MultiPolygon, rapid.IntRange(1, 3).Draw(t, "nmpoly"))
		for i := range mp {
			mp[i], _ = genPolygon(t, s)
		}
		return mp, "multipolygon"
	case k < 91:
		p, _ := genPolygon(t, s)
		return p[0], "ring"
	case k < 94:
		// members close together so that their covers overlap
		return genCluster(t, s), "collection/cluster"
	case k < 98:
		c := make(orb.Collection, rapid.IntRange(0, 4).Draw(t, "ncoll"))
		for i := range c {
			c[i], _ = genGeom(t, s, depth+1)
		}
		return c, "collection"
	}
	return genDegenerate(t, s), "degenerate"
}

// genCluster: a polygon, a line through its neighbourhood and a point of it, in one collection.
func genCluster(t *rapid.T, s tspace) orb.Collection {
	p, _ := genPolygon(t, s)
	c := orb.Collection{p}
	v := p[0]
	if len(v) >= 3 {
		i := rapid.IntRange(0, len(v)-2).Draw(t, "ci")
		j := rapid.IntRange(0, len(v)-2).Draw(t, "cj")
		if v[i] != v[j] {
			c = append(c, orb.LineString{v[i], v[j]})
		}
		c = append(c, v[i], orb.MultiPoint{v[j]})
		b := orb.Bound{Min: orb.Point{math.Min(v[i][0], v[j][0]), math.Min(v[i][1], v[j][1])}, Max: orb.Point{math.Max(v[i][0], v[j][0]), math.Max(v[i][1], v[j][1])}}
		c = append(c, b)
	}
	return c
}

func genTarget(t *rapid.T, z uint32) uint32 {
	if z == 0 {
		return 0
	}
	if rapid.IntRange(0, 3).Draw(t, "tmode") == 0 {
		return uint32(rapid.IntRange(0, int(z)).Draw(t, "target"))
	}
	lo := 0
	if z > 4 {
		lo = int(z) - 4
	}
	return uint32(rapid.IntRange(lo, int(z)).Draw(t, "targetNear"))
}

// ---------------------------------------------------------------- properties

func zoomBucket(z uint32) string {
	switch {
	case z <= 3:
		return "zoom:0-3"
	case z <= 10:
		return "zoom:4-10"
	case z <= 17:
		return "zoom:11-17"
	}
	return "zoom:18-22"
}

func classify(test string, c Case, inf info) {
	stats.Class("kind:" + c.Class)
	stats.Class(zoomBucket(c.Z))
	if strings.HasPrefix(c.Class, "micro/") || strings.HasPrefix(c.Class, "dense/") {
		// the sub-scale classes: what the model could demand of them
		switch {
		case !inf.inDomain:
			stats.Class("subscale:outside (" + inf.why + ")")
		case inf.reqTiles == 0:
			stats.Class("subscale:in quantifier, vertex rule only (all within 1e-6 tile of an edge)")
		case inf.reqTiles == 1:
			stats.Class("subscale:in quantifier, 1 required tile")
		default:
			stats.Class("subscale:in quantifier, >= 2 required tiles (crosses a boundary)")
		}
		if c.Dense != nil {
			switch {
			case c.Dense.N >= 100000:
				stats.Class("dense:>=1e5 steps")
			case c.Dense.N >= 10000:
				stats.Class("dense:1e4..1e5 steps")
			default:
				stats.Class("dense:1e3..1e4 steps")
			}
		}
	}
	if c.Shared >= 2 {
		stats.Class(fmt.Sprintf("sharedarg:%d concurrent callers of one argument value", c.Shared))
	}
	if c.Kind == "cover" || c.Kind == "large" {
		stats.Class("layout:" + c.Layout)
	}
	if c.Kind == "cover" {
		if inf.inDomain {
			stats.Class("domain:in quantifier")
		} else {
			stats.Class("domain:outside quantifier (totality and no-extra-tile only)")
			stats.Class("outside:" + c.Class + ": " + inf.why)
		}
	}
	multiRow := inf.inDomain && inf.reqTiles >= 3 && inf.reqRows >= 2
	if multiRow {
		stats.Class("nontrivial:>=3 required tiles in >=2 rows")
	}
	if inf.interiorOnly > 0 {
		stats.Class("nontrivial:polygon with interior-only tiles")
	}
	if inf.mergedQuad {
		stats.Class("nontrivial:merge with a complete quad")
	}
	switch {
	case inf.coverSize == 0:
		stats.Class("cover:0 tiles")
	case inf.coverSize == 1:
		stats.Class("cover:1 tile")
	case inf.coverSize <= 8:
		stats.Class("cover:2-8 tiles")
	case inf.coverSize <= 100:
		stats.Class("cover:9-100 tiles")
	default:
		stats.Class("cover:>100 tiles")
	}
	if c.Target == c.Z {
		stats.Class("target:= cover zoom")
	} else {
		stats.Class("target:< cover zoom")
	}
	// sub-scale cases are non-trivial when the model demands a tile of them (their
	// cover is at most a few tiles, so the multi-row rule rarely applies)
	subscale := (strings.HasPrefix(c.Class, "micro/") || strings.HasPrefix(c.Class, "dense/")) && inf.inDomain && inf.coverSize > 0
	if subscale {
		stats.Class("nontrivial:sub-scale geometry in the quantifier")
	}
	if multiRow || inf.interiorOnly > 0 || inf.mergedQuad || subscale {
		stats.NonTrivial(gen.JSON(c))
		grp := c.Class
		for i := range grp {
			if grp[i] == '/' || grp[i] == '-' {
				grp = grp[:i]
				break
			}
		}
		if c.Kind == "merge" {
			grp = "merge"
		}
		if stats.WantSample(grp) {
			stats.Sample(grp, c)
		}
	}
}

const (
	assumeEps      = "tolerance: a tile is required only if the geometry meets it shrunk by 1e-6 tile on all four sides, allowed if the geometry meets it grown by 1e-6 tile; contacts in between are optional (DESIGN 3.2)"
	assumeProj     = "the mercator image of a segment is the straight tile-space segment between the projected vertices (harness's own asinh/tan projection); vertices with lon in (-179.82,179.82), |lat| < 84.97"
	assumeLines    = "line strings whose vertices all project to one point count as zero-length (outside the quantifier): nothing is required of their cover except no extra tile"
	assumePolys    = "polygons are simple in tile space (star-shaped, comb, lattice star, rectangle; holes strictly inside and disjoint) with closed rings; anything else (checked by the harness's own simplicity test) only has to return without panic and without tiles outside its bound"
	assumeBounds   = "orb.Bound inputs have Min <= Max; cover of a bound = every tile overlapping the rectangle"
	assumeMerge    = "merge inputs are sets of distinct tiles of one zoom with value true; target zoom <= that zoom; MergeUpPartial is only checked for count = 4"
	assumeReadOnly = "tile covers are read-only on their geometry argument: the argument is laid out as windows of one buffer (also with members sharing memory) / with spare capacity and sentinels; every element within len of every part must be bit-identical after the calls (a write that only reaches sentinel cells beyond len is counted as layout-note, not failed); unclosed ring spellings (outside the quantifier, may be refused) are included for this and for totality"
	assumeAlias    = "results of MergeUp/MergeUpPartial must not change when another set is merged afterwards; the result may be the argument itself (documented for target = input zoom)"
	assumeScale    = "geometries whose extent is below 2^-45 world widths (128 ulp of the largest tile fraction: 2.8e-14 tile at zoom 0, 1.2e-7 tile at zoom 22) may collapse to one tile fraction and count as zero-length (nothing required); above it a geometry is decided however short its segments are, and the cover holds, for each vertex, a tile within 1e-6 tile of it"
	assumeMembers  = "tiles of a maptile.Set are its keys with value true"
)

func assumptions() {
	for _, a := range []string{assumeEps, assumeProj, assumeLines, assumePolys, assumeBounds, assumeMerge, assumeMembers, assumeReadOnly, assumeAlias, assumeScale} {
		stats.Assume(a)
	}
}

// 2/7 shared buffer, 2/7 spare capacity, 2/7 alias (members with equal content or
// contained in each other share memory), 1/7 plain
var layouts = []string{"shared", "alias", "spare", "shared", "spare", "alias", "plain"}

// drawCase draws one cover case. heavy = false leaves out the two expensive
// classes (polygons hundreds of tiles across, lines of > 2e4 micro steps) so that
// a group of cases can be repeated many times (TestPropConcurrent).
func drawCase(rt *rapid.T, heavy bool) Case {
	z := uint32(rapid.IntRange(0, 22).Draw(rt, "z"))
	s := newTS(z)
	layout := layouts[rapid.IntRange(0, len(layouts)-1).Draw(rt, "layout")]
	c := Case{Kind: "cover", Z: z, Target: genTarget(rt, z), Layout: layout}
	// densified lines cost ~20 us per vertex (four walks by orb, the model, the
	// layout guard): they are rare and capped per tier
	// (a mid-range value of an IntRange comes up about three times less often than 1/range)
	denseOdds, maxN := 100, 20000
	if stats.Thorough() {
		denseOdds, maxN = 700, 200000
	}
	if !heavy {
		denseOdds, maxN = 100, 2000
	}
	// the same argument value used by 2..6 concurrent callers (L4)
	if heavy {
		switch rapid.IntRange(0, 31).Draw(rt, "sharedarg") {
		case 29:
			c.Shared = 2
		case 30:
			c.Shared = 3
		case 31:
			c.Shared = 5
		}
	}
	switch sel := rapid.IntRange(0, denseOdds-1).Draw(rt, "scale"); {
	case sel == denseOdds/2+1: // not 0: rapid draws small values far more often than 1/denseOdds
		d, class := genDense(rt, s, maxN)
		c.Dense, c.Class, c.Shared = &d, class, 0
		return c
	case sel == denseOdds/2+2 || sel == denseOdds/2+3:
		// a random rung of a size ladder (see large_test.go), small enough for every tier
		largeTop := float64(1 << 13)
		if !heavy {
			largeTop = 256 // repeated 20 times by up to 8 goroutines
		}
		d := ladderDims[rapid.IntRange(0, len(ladderDims)-1).Draw(rt, "ldim")]
		l := Large{Dim: d.name, Shape: d.shapes[rapid.IntRange(0, len(d.shapes)-1).Draw(rt, "lshape")], Size: int(logUniform(rt, 6, largeTop, "lsize")), Pos: rapid.IntRange(0, d.positions-1).Draw(rt, "lpos")}
		if d.name == "members" && l.Pos > 0 && l.Shape != "multipoint" {
			l.Huge = int(logUniform(rt, 64, 2*largeTop, "lhuge"))
		}
		if zmin, ok := minZoom(l); ok {
			c.Kind, c.Class, c.Large, c.Shared = "large", "large/"+l.Dim+"/"+l.Shape, &l, 0
			c.Z = uint32(rapid.IntRange(int(zmin), 22).Draw(rt, "lz"))
			c.Target = genTarget(rt, c.Z)
			return c
		}
	case sel%6 == 1:
		g, class := genMicro(rt, s)
		c.G, c.Class = gen.G{V: g}, class
		return c
	case sel%6 == 2 && sel%12 == 2:
		g, class := genAlias(rt, s)
		c.G, c.Class, c.Layout = gen.G{V: g}, class, "alias"
		return c
	}
	g, class := genGeom(rt, s, 0)
	for tries := 0; !heavy && strings.Contains(class, "-big") && tries < 4; tries++ {
		g, class = genGeom(rt, s, 0)
	}
	if hasRing(g) && rapid.IntRange(0, 7).Draw(rt, "unclosed") == 0 {
		g, class = unclose(g), class+"+unclosed"
	}
	c.G, c.Class = gen.G{V: g}, class
	return c
}

func nonTrivial(inf info) bool {
	return (inf.inDomain && inf.reqTiles >= 3 && inf.reqRows >= 2) || inf.interiorOnly > 0 || inf.mergedQuad
}

func TestPropCover(t *testing.T) {
	assumptions()
	stats.Check(t, 44000, 2400000, func(rt *rapid.T) {
		c := drawCase(rt, true)
		var inf info
		stats.Try(rt, "TestPropCover", c, func() error {
			var err error
			inf, err = evaluate(c)
			return err
		})
		classify("TestPropCover", c, inf)
	})
}

// TestPropConcurrent evaluates 2..8 independent cover cases at the same time on
// separate goroutines, 20 rounds each. The cover and merge functions depend on
// their arguments only (checkCase is a pure function of the case and sets no
// package-level state of orb), so every case must still agree with the model:
// a disagreement means concurrent callers share state inside the library.
func TestPropConcurrent(t *testing.T) {
	assumptions()
	stats.Assume("concurrent callers: tilecover.* and MergeUp* are functions of their arguments only; groups of 2..8 independent cases run on as many goroutines, 20 rounds each")
	stats.Check(t, 2000, 50000, func(rt *rapid.T) {
		n := rapid.IntRange(2, 8).Draw(rt, "goroutines")
		cs := make([]Case, n)
		for i := range cs {
			cs[i] = drawCase(rt, false)
		}
		stats.Class(fmt.Sprintf("concurrent:%d goroutines", n))
		nts := make([]bool, n)
		stats.TryParallel(rt, "TestPropConcurrent", cs, n, 20, func(i int) error {
			inf, err := evaluate(cs[i])
			nts[i] = nonTrivial(inf) // goroutine i is the only writer of slot i
			return err
		})
		nt := 0
		for _, b := range nts {
			if b {
				nt++
			}
		}
		if nt >= 2 {
			stats.NonTrivial("conc:" + gen.JSON(cs))
			if stats.WantSample("concurrent") {
				stats.Sample("concurrent", cs)
			}
		}
	})
}

// fillQuad adds descendants of the tile (x,y) that is `depth` levels above
// zoom Z: each child is filled completely, recursed into, or left empty.
func fillQuad(t *rapid.T, x, y uint32, depth int, out *[][2]uint32) {
	if depth == 0 {
		*out = append(*out, [2]uint32{x, y})
		return
	}
	for i := uint32(0); i < 4; i++ {
		cx, cy := 2*x+i%2, 2*y+i/2
		switch k := rapid.IntRange(0, 9).Draw(t, "fill"); {
		case k < 6:
			side := uint32(1) << uint(depth-1)
			for dx := uint32(0); dx < side; dx++ {
				for dy := uint32(0); dy < side; dy++ {
					*out = append(*out, [2]uint32{cx*side + dx, cy*side + dy})
				}
			}
		case k < 9:
			fillQuad(t, cx, cy, depth-1, out)
		}
	}
}

func TestPropMerge(t *testing.T) {
	assumptions()
	stats.Check(t, 20000, 1200000, func(rt *rapid.T) {
		z := rapid.IntRange(0, 22).Draw(rt, "z")
		var tiles [][2]uint32
		maxK := minInt(z, 4)
		nblocks := rapid.IntRange(1, 3).Draw(rt, "blocks")
		topK := 0
		for b := 0; b < nblocks; b++ {
			k := rapid.IntRange(0, maxK).Draw(rt, "k")
			if k > topK {
				topK = k
			}
			lim := (1 << uint(z-k)) - 1
			var x, y int
			if rapid.Bool().Draw(rt, "corner") {
				// near the edges of the world: X/Y = 0 or 2^z-1 participate
				x = rapid.SampledFrom([]int{0, lim}).Draw(rt, "ex")
				y = rapid.SampledFrom([]int{0, lim}).Draw(rt, "ey")
			} else {
				x, y = rapid.IntRange(0, lim).Draw(rt, "x"), rapid.IntRange(0, lim).Draw(rt, "y")
			}
			fillQuad(rt, uint32(x), uint32(y), k, &tiles)
		}
		// parts of the input at a very different position (round M, M4): at zoom >= 18
		// (or 30) further quads k*2^j parent rows / columns away from the first block
		spread := z >= 18 && rapid.IntRange(0, 2).Draw(rt, "spread") > 0
		if rapid.IntRange(0, 19).Draw(rt, "z30") == 17 {
			z, spread, tiles, topK = 30, true, nil, 0
			tiles = append(tiles, quadTiles(uint32(rapid.IntRange(0, 1<<29-1).Draw(rt, "x30")), uint32(rapid.IntRange(0, 1<<29-1).Draw(rt, "y30")), rapid.IntRange(1, 15).Draw(rt, "m30"))...)
		}
		if spread && len(tiles) > 0 {
			pn := uint32(1) << uint(z-1)
			px, py := tiles[0][0]/2, tiles[0][1]/2
			for i, n := 0, rapid.IntRange(1, 3).Draw(rt, "nspread"); i < n; i++ {
				d := uint32(rapid.IntRange(1, 3).Draw(rt, "sk")) << uint(rapid.IntRange(0, z-2).Draw(rt, "sj"))
				qx, qy := px, py
				switch rapid.IntRange(0, 2).Draw(rt, "saxis") {
				case 0:
					qx = (px + d) % pn
				case 1:
					qy = (py + d) % pn
				default:
					qx, qy = (px+d)%pn, (py+d)%pn
				}
				tiles = append(tiles, quadTiles(qx, qy, rapid.IntRange(1, 15).Draw(rt, "smask"))...)
			}
		}
		// a few scattered single tiles
		for i, n := 0, rapid.IntRange(0, 4).Draw(rt, "scatter"); i < n; i++ {
			lim := (1 << uint(z)) - 1
			tiles = append(tiles, [2]uint32{uint32(rapid.IntRange(0, lim).Draw(rt, "sx")), uint32(rapid.IntRange(0, lim).Draw(rt, "sy"))})
		}
		// canonical order, no duplicates
		sort.Slice(tiles, func(i, j int) bool {
			if tiles[i][1] != tiles[j][1] {
				return tiles[i][1] < tiles[j][1]
			}
			return tiles[i][0] < tiles[j][0]
		})
		uniq := tiles[:0]
		for i, tl := range tiles {
			if i == 0 || tl != tiles[i-1] {
				uniq = append(uniq, tl)
			}
		}
		var target int
		if rapid.Bool().Draw(rt, "tnear") {
			target = rapid.IntRange(maxInt(0, z-topK-1), z).Draw(rt, "targetNear")
		} else {
			target = rapid.IntRange(0, z).Draw(rt, "target")
		}
		class := "merge/synthetic"
		if spread {
			class = "merge/synthetic-spread"
		}
		c := Case{Kind: "merge", Class: class, Z: uint32(z), Target: uint32(target), Tiles: uniq}
		var inf info
		stats.Try(rt, "TestPropMerge", c, func() error {
			var err error
			inf, err = evaluate(c)
			return err
		})
		classify("TestPropMerge", c, inf)
	})
}

func maxInt(a, b int) int {
	if a > b {
		return a
	}
	return b
}
