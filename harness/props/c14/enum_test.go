package c14

import (
	"encoding/json"
	"fmt"
	"os"
	"os/exec"
	"strings"
	"testing"

	"github.com/paulmach/orb"

	"verifharness/internal/gen"
	"verifharness/internal/stats"
)

// latticePoints: the 5x5 half-tile lattice of the window [3,5]x[3,5] at zoom 3
// (tile y = 4 is the equator, which orb projects exactly; x is exact
// everywhere; other rows are exact where a neighbouring latitude maps to
// them). At zoom 4, 5, 6 the same points are on the integer lattice, at zoom
// 2 on the quarter lattice.
func latticePoints() ([]orb.Point, [][2]int) {
	s := newTS(3)
	var pts []orb.Point
	var ij [][2]int
	for i := 0; i < 5; i++ {
		for j := 0; j < 5; j++ {
			pts = append(pts, s.vertex(3+0.5*float64(i), 3+0.5*float64(j), true))
			ij = append(ij, [2]int{i, j})
		}
	}
	return pts, ij
}

func collinear(a, b, c [2]int) bool {
	return (b[0]-a[0])*(c[1]-a[1])-(b[1]-a[1])*(c[0]-a[0]) == 0
}

func enumTarget(z uint32) uint32 {
	if z == 0 {
		return 0
	}
	return z - 1
}

// TestEnumLattice: every segment and every non-degenerate triangle (thorough:
// also every quadrilateral) with vertices on the lattice above, at several
// zooms. Exact corner crossings, edges running along tile edges and vertices
// on tile corners are dense here.
func TestEnumLattice(t *testing.T) {
	assumptions()
	pts, ij := latticePoints()
	var idx, size int64
	run := func(g orb.Geometry, class string, zooms []uint32) {
		for _, z := range zooms {
			idx++
			size++
			if !stats.Mine(idx) {
				continue
			}
			c := Case{Kind: "cover", Class: class, Z: z, Target: enumTarget(z), G: gen.G{V: g}, Layout: layouts[idx%5]}
			stats.Eval("TestEnumLattice", 1)
			var inf info
			stats.TryT(t, "TestEnumLattice", c, func() error {
				var err error
				inf, err = evaluate(c)
				return err
			})
			classify("TestEnumLattice", c, inf)
		}
	}
	n := len(pts)
	for a := 0; a < n; a++ {
		for b := 0; b < n; b++ {
			if a == b {
				continue
			}
			run(orb.LineString{pts[a], pts[b]}, "enum/segment", []uint32{2, 3, 4, 5, 6})
			for c := 0; c < n; c++ {
				if c == a || c == b {
					continue
				}
				run(orb.LineString{pts[a], pts[b], pts[c]}, "enum/2-segment line", []uint32{3, 4})
				if collinear(ij[a], ij[b], ij[c]) {
					continue
				}
				run(orb.Polygon{orb.Ring{pts[a], pts[b], pts[c], pts[a]}}, "enum/triangle", []uint32{3, 4, 5})
				// the unclosed spelling (outside the quantifier: totality, bound, argument untouched)
				run(orb.Polygon{orb.Ring{pts[a], pts[b], pts[c]}}, "enum/triangle+unclosed", []uint32{4})
				if !stats.Thorough() {
					continue
				}
				for d := 0; d < n; d++ {
					if d == a || d == b || d == c {
						continue
					}
					run(orb.Polygon{orb.Ring{pts[a], pts[b], pts[c], pts[d], pts[a]}}, "enum/quadrilateral", []uint32{3, 4})
				}
			}
		}
	}
	stats.Subspace("segments (zoom 2-6), 2-segment lines (zoom 3,4), triangles (zoom 3-5; unclosed spelling at zoom 4) and, thorough only, quadrilaterals (zoom 3,4; the non-simple ones for totality) over the 5x5 half-tile lattice around lon 0 / lat 0 at zoom 3", size, true)
}

// TestEnumMerge: every subset of the 16 tiles of zoom 2 (the whole world) with
// every target zoom 0..2; thorough: the same 65536 subsets placed in the 4x4
// block at (4,8) of zoom 5 with every target 0..5.
func TestEnumMerge(t *testing.T) {
	assumptions()
	var idx, size int64
	run := func(z uint32, ox, oy uint32, name string) {
		for mask := 0; mask < 1<<16; mask++ {
			for target := uint32(0); target <= z; target++ {
				idx++
				size++
				if !stats.Mine(idx) {
					continue
				}
				var tiles [][2]uint32
				for b := 0; b < 16; b++ {
					if mask&(1<<uint(b)) != 0 {
						tiles = append(tiles, [2]uint32{ox + uint32(b%4), oy + uint32(b/4)})
					}
				}
				c := Case{Kind: "merge", Class: name, Z: z, Target: target, Tiles: tiles}
				stats.Eval("TestEnumMerge", 1)
				var inf info
				stats.TryT(t, "TestEnumMerge", c, func() error {
					var err error
					inf, err = evaluate(c)
					return err
				})
				if inf.mergedQuad {
					stats.NonTrivial(gen.JSON(c))
				}
			}
		}
	}
	run(2, 0, 0, "enum/merge z2")
	if stats.Thorough() {
		run(5, 4, 8, "enum/merge z5")
	}
	stats.Subspace("all subsets of the 16 tiles of zoom 2 x target 0..2 (thorough: also of the 4x4 block at (4,8) of zoom 5 x target 0..5)", size, true)
}

// TestEnumFormerDefects: inputs outside C14's quantifier that used to panic or
// to return an invalid tile (fixed by b844ccc and a4ed11e; owned by C20 and
// C13; inverted bounds: b384ab8, C20). Here they only have to return without panic, without error and with
// valid tiles allowed by the model.
func TestEnumFormerDefects(t *testing.T) {
	stats.Assume("former defects b844ccc (ring with < 2 distinct vertices), a4ed11e (longitude 180) and b384ab8 (inverted bound) are replayed for totality and tile validity only; they are outside C14's quantifier")
	var size int64
	for z := uint32(0); z <= 22; z++ {
		s := newTS(z)
		p := unproject(0.3*s.n+0.25, 0.4*s.n+0.25, z)
		// the antimeridian bound is 2.5 tiles wide and 1.5 tiles high at every zoom
		w := unproject(s.n-2.5, 0.5*s.n+0.75, z)
		e := unproject(s.n, 0.5*s.n-0.75, z)
		e[0] = 180
		if z < 2 {
			w = unproject(0.6*s.n, 0.7*s.n, z)
		}
		geoms := []orb.Geometry{
			orb.Polygon{orb.Ring{p, p, p, p}},
			orb.Polygon{orb.Ring{p}},
			orb.Polygon{orb.Ring{}},
			orb.Ring{p, p},
			orb.MultiPolygon{orb.Polygon{orb.Ring{p, p, p, p}}},
			orb.Collection{orb.Polygon{orb.Ring{p, p, p, p}}},
			orb.Point{180, p[1]},
			orb.MultiPoint{{180, w[1]}, {180, 0}},
			orb.Bound{Min: orb.Point{w[0], w[1]}, Max: orb.Point{180, e[1]}},
			orb.Bound{Min: orb.Point{180, 0}, Max: orb.Point{180, 0}},
			// inverted on one axis (b384ab8), on the other, on both
			orb.Bound{Min: orb.Point{20, -20}, Max: orb.Point{-20, 20}},
			orb.Bound{Min: orb.Point{-20, 20}, Max: orb.Point{20, -20}},
			orb.Bound{Min: orb.Point{20, 20}, Max: orb.Point{-20, -20}},
		}
		for _, g := range geoms {
			size++
			if !stats.Mine(size) {
				continue
			}
			c := Case{Kind: "cover", Class: "former-defect", Z: z, Target: enumTarget(z), G: gen.G{V: g}}
			stats.Eval("TestEnumFormerDefects", 1)
			if b, isBound := g.(orb.Bound); isBound && !validBound(b) {
				// an inverted bound used to die with "fatal error: out of memory", which no
				// recover() can stop: decide these cases in a child process
				stats.TryT(t, "TestEnumFormerDefects", c, func() error { return inChild(c) })
				continue
			}
			stats.TryT(t, "TestEnumFormerDefects", c, func() error { return checkCase(c) })
		}
	}
	stats.Subspace("degenerate rings and longitude-180 points/bounds and inverted bounds (former defects b844ccc, a4ed11e, b384ab8) x zoom 0..22", size, true)
}

const childEnv = "VERIF_C14_CHILD_CASE"

// inChild runs checkCase(c) in a fresh process of this test binary, so that a
// fatal runtime error (out of memory) becomes an ordinary failure with a
// replay file instead of the death of the shard.
func inChild(c Case) error {
	b, err := json.Marshal(c)
	if err != nil {
		return err
	}
	cmd := exec.Command(os.Args[0], "-test.run", "^TestChildCase$")
	env := []string{childEnv + "=" + string(b)}
	for _, e := range os.Environ() {
		// the child must not overwrite this shard's statistics or replay files
		if strings.HasPrefix(e, "VERIF_OUT=") || strings.HasPrefix(e, "VERIF_REPLAY") || strings.HasPrefix(e, childEnv+"=") {
			continue
		}
		env = append(env, e)
	}
	cmd.Env = env
	out, err := cmd.CombinedOutput()
	if err == nil {
		return nil
	}
	msg := string(out)
	if len(msg) > 600 {
		msg = msg[:600]
	}
	return fmt.Errorf("child process deciding the case failed (%v): %s", err, msg)
}

// TestChildCase is the child side of inChild (not run by the driver: its name
// matches none of TestProp/TestEnum/TestKnown/TestSelf).
func TestChildCase(t *testing.T) {
	raw := os.Getenv(childEnv)
	if raw == "" {
		t.Skip("not a child process")
	}
	var c Case
	if err := json.Unmarshal([]byte(raw), &c); err != nil {
		t.Fatal(err)
	}
	if err := stats.Guard(func() error { return checkCase(c) }); err != nil {
		t.Fatal(err)
	}
}

// quadTiles: the children of parent (px,py) (zoom Z-1) selected by mask (bit i = child i%2, i/2).
func quadTiles(px, py uint32, mask int) [][2]uint32 {
	var out [][2]uint32
	for b := 0; b < 4; b++ {
		if mask&(1<<uint(b)) != 0 {
			out = append(out, [2]uint32{2*px + uint32(b%2), 2*py + uint32(b/2)})
		}
	}
	return out
}

// TestEnumMergeSpread (round M, class M4): parts of ONE merge input at very
// different positions. Two or three quads whose parents are k*2^j rows and/or
// columns apart (every j up to the height of the pyramid, k = 1..3, wrapping
// around the world), at zoom 18..22 and at zoom 30, as partial quads whose child
// counts add up to 4 (1+3, 2+2, 3+1, 1+1+2), complete quads next to partial and
// next to complete ones, and 4x4 blocks (two levels merge); MergeUp and
// MergeUpPartial(4) to targets Z-1, Z-2, Z-12 and 0, judged by the exact
// area / ancestor / sibling-quad model of verifyMerge.
func TestEnumMergeSpread(t *testing.T) {
	assumptions()
	var idx, size int64
	run := func(z uint32, tiles [][2]uint32, class string) {
		targets := []uint32{z - 1, z - 2, z - 12, 0}
		for _, target := range targets {
			idx++
			size++
			if !stats.Mine(idx) {
				continue
			}
			c := Case{Kind: "merge", Class: class, Z: z, Target: target, Tiles: tiles}
			stats.Eval("TestEnumMergeSpread", 1)
			var inf info
			stats.TryT(t, "TestEnumMergeSpread", c, func() error {
				var err error
				inf, err = evaluate(c)
				return err
			})
			if inf.mergedQuad {
				stats.NonTrivial(gen.JSON(c))
			}
		}
	}
	// compositions: child masks of the quads at offset 0, d, 2d
	comps := [][]int{
		{0b0001, 0b1110}, {0b0011, 0b1100}, {0b0111, 0b1000}, {0b0101, 0b0101}, {0b1001, 0b0110},
		{0b0001, 0b0010, 0b1100}, {0b1000, 0b0001, 0b0011},
		{0b1111, 0b0001}, {0b1111, 0b0111}, {0b1111, 0b1111}, {0b0111, 0b1111, 0b0001}, {0b1111, 0b1111, 0b1111},
	}
	for _, z := range []uint32{18, 19, 20, 21, 22, 30} {
		pn := uint32(1) << (z - 1) // parents per row
		bx, by := pn/4+5, uint32(3)
		for j := uint32(0); j <= z-2; j++ {
			for k := uint32(1); k <= 3; k++ {
				d := k << j
				for axis := 0; axis < 3; axis++ {
					for _, masks := range comps {
						var tiles [][2]uint32
						for i, m := range masks {
							px, py := bx, by
							if axis != 0 {
								py = (by + uint32(i)*d) % pn
							}
							if axis != 1 {
								px = (bx + uint32(i)*d) % pn
							}
							tiles = append(tiles, quadTiles(px, py, m)...)
						}
						run(z, tiles, "enum/merge spread")
					}
					// 4x4 blocks (grandparents) the same distance apart: two levels merge
					var tiles [][2]uint32
					for i := uint32(0); i < 2; i++ {
						gx, gy := (bx/2+i*d/2)%(pn/2), (by/2+i*d/2)%(pn/2)
						if axis == 0 {
							gy = by / 2
						}
						if axis == 1 {
							gx = bx / 2
						}
						for b := uint32(0); b < 16; b++ {
							if i == 1 && b == 5 {
								continue // the second block lacks one tile
							}
							tiles = append(tiles, [2]uint32{4*gx + b%4, 4*gy + b/4})
						}
					}
					run(z, tiles, "enum/merge spread blocks")
				}
			}
		}
	}
	stats.Subspace("merge inputs of 2-3 quads (partial 1+3, 2+2, 3+1, 1+1+2; complete next to partial / complete) and of two 4x4 blocks whose parents are k*2^j (j = 0..Z-2, k = 1..3) rows, columns or both apart, zoom 18..22 and 30, targets Z-1, Z-2, Z-12, 0", size, true)
}
