// Package c17 decides property C17 (resampling) by generated search against
// a direct arc-length interpolation model.
package c17

import (
	"encoding/json"
	"fmt"
	"math"
	"testing"

	"github.com/paulmach/orb"
	"github.com/paulmach/orb/geo"
	"github.com/paulmach/orb/planar"
	"github.com/paulmach/orb/resample"
	"pgregory.net/rapid"

	"verifharness/internal/gen"
	"verifharness/internal/stats"
)

func TestMain(m *testing.M) { stats.Main(m, "C17") }

// Case is one generated input (also the replay format).
type Case struct {
	Line []gen.P `json:"line"`
	Nil  bool    `json:"nil_line"`
	Mode string  `json:"mode"` // resample | interval
	N    int     `json:"n"`
	D    gen.F   `json:"d"`
	DF   string  `json:"df"` // planar | geo | haversine | planar-reentrant
}

func (c Case) line() orb.LineString {
	if c.Nil {
		return nil
	}
	return orb.LineString(gen.OrbPts(c.Line))
}

func distFunc(name string) orb.DistanceFunc {
	switch name {
	case "geo":
		return geo.Distance
	case "haversine":
		return geo.DistanceHaversine
	}
	return planar.Distance
}

func closeRel(a, b, rel float64) bool {
	if a == b {
		return true
	}
	return math.Abs(a-b) <= rel*math.Max(math.Abs(a), math.Abs(b))
}

// ownDistance is the harness's own statement of the three metrics.
func ownDistance(name string, a, b orb.Point) float64 {
	const r = 6378137.0 // metres; the value orb documents as EarthRadius
	rad := func(d float64) float64 { return d * math.Pi / 180 }
	switch name {
	case "geo":
		dlat := rad(a[1] - b[1])
		dlon := math.Abs(rad(a[0] - b[0]))
		if dlon > math.Pi {
			dlon = 2*math.Pi - dlon
		}
		x := dlon * math.Cos(rad((a[1]+b[1])/2))
		return math.Sqrt(dlat*dlat+x*x) * r
	case "haversine":
		s1 := math.Sin(rad(a[1]-b[1]) / 2)
		s2 := math.Sin(rad(a[0]-b[0]) / 2)
		h := s1*s1 + math.Cos(rad(a[1]))*math.Cos(rad(b[1]))*s2*s2
		if h > 1 {
			h = 1
		}
		return 2 * r * math.Atan2(math.Sqrt(h), math.Sqrt(1-h))
	}
	dx, dy := a[0]-b[0], a[1]-b[1]
	return math.Sqrt(dx*dx + dy*dy)
}

// model: point at arc length target along ls, by direct interpolation on the
// first non-degenerate segment containing it.
func expectedAt(ls orb.LineString, dists []float64, target float64) orb.Point {
	cum := 0.0
	for i := 0; i+1 < len(ls); i++ {
		d := dists[i]
		if d > 0 && target <= cum+d {
			f := (target - cum) / d
			if f < 0 {
				f = 0
			}
			return orb.Point{ls[i][0] + f*(ls[i+1][0]-ls[i][0]), ls[i][1] + f*(ls[i+1][1]-ls[i][1])}
		}
		cum += d
	}
	return ls[len(ls)-1]
}

func allEqual(ls orb.LineString) bool {
	for _, p := range ls {
		if p != ls[0] {
			return false
		}
	}
	return true
}

func samePoints(a, b orb.LineString) bool {
	if len(a) != len(b) {
		return false
	}
	for i := range a {
		if math.Float64bits(a[i][0]) != math.Float64bits(b[i][0]) || math.Float64bits(a[i][1]) != math.Float64bits(b[i][1]) {
			return false
		}
	}
	return true
}

// distance from p to the polyline (planar, in coordinate units)
func distToLine(p orb.Point, ls orb.LineString) float64 {
	// rescale by a power of two (exact) so that squares neither underflow nor overflow
	m := math.Max(math.Abs(p[0]), math.Abs(p[1]))
	for _, q := range ls {
		m = math.Max(m, math.Max(math.Abs(q[0]), math.Abs(q[1])))
	}
	if m > 0 && (m < 0x1p-200 || m > 0x1p200) {
		_, e := math.Frexp(m)
		sc := make(orb.LineString, len(ls))
		for i, q := range ls {
			sc[i] = orb.Point{math.Ldexp(q[0], -e), math.Ldexp(q[1], -e)}
		}
		return math.Ldexp(distToLine(orb.Point{math.Ldexp(p[0], -e), math.Ldexp(p[1], -e)}, sc), e)
	}
	best := math.Inf(1)
	for i := 0; i+1 < len(ls); i++ {
		a, b := ls[i], ls[i+1]
		dx, dy := b[0]-a[0], b[1]-a[1]
		t := 0.0
		if l2 := dx*dx + dy*dy; l2 > 0 {
			t = ((p[0]-a[0])*dx + (p[1]-a[1])*dy) / l2
			t = math.Max(0, math.Min(1, t))
		}
		d := math.Hypot(p[0]-(a[0]+t*dx), p[1]-(a[1]+t*dy))
		if d < best {
			best = d
		}
	}
	return best
}

func checkCase(c Case) error {
	orig := c.line()
	df := distFunc(c.DF)
	callDF := df
	if c.DF == "planar-reentrant" {
		// the distance callback itself resamples another line: a legal caller (a metric defined through
		// a resampled path) that exposes scratch state kept between calls inside the package
		callDF = func(a, b orb.Point) float64 {
			tmp := orb.LineString{{7, 7}, {8, 7}, {8, 11}, {13, 11}}
			if r := resample.Resample(tmp, planar.Distance, 3); len(r) != 3 || r[1] != (orb.Point{8, 11}) {
				panic(fmt.Sprintf("nested Resample returned %v", r))
			}
			return planar.Distance(a, b)
		}
	}
	in := orig.Clone()
	if orig == nil {
		in = nil
	}
	var out orb.LineString
	var wantN []int
	d := float64(c.D)

	// arguments that return nothing
	if c.Mode == "resample" && c.N <= 0 {
		out = resample.Resample(in, callDF, c.N)
		if len(out) != 0 {
			return fmt.Errorf("Resample with N=%d returned %d points, want nothing", c.N, len(out))
		}
		return nil
	}
	if c.Mode == "interval" && d <= 0 {
		out = resample.ToInterval(in, callDF, d)
		if len(out) != 0 {
			return fmt.Errorf("ToInterval with d=%v returned %d points, want nothing", d, len(out))
		}
		return nil
	}

	if c.Mode == "resample" {
		out = resample.Resample(in, callDF, c.N)
	} else {
		out = resample.ToInterval(in, callDF, d)
	}

	// fewer than two vertices: returned as it is
	if len(orig) <= 1 {
		if !samePoints(out, orig) {
			return fmt.Errorf("line with %d vertices not returned as is: got %v", len(orig), out)
		}
		return nil
	}

	dists := make([]float64, len(orig)-1)
	total := 0.0
	for i := range dists {
		dists[i] = df(orig[i], orig[i+1])
		total += dists[i]
		// the distance function handed to the resampler is the library's own (planar.Distance, geo.Distance,
		// geo.DistanceHaversine - the "planar and great-circle distance functions" of the quantifier): it must
		// be the metric it is documented to be, independent of the direction of travel. Judged against the
		// harness's own formulas so that a change inside planar/ or geo/ cannot move the model with it.
		want := ownDistance(c.DF, orig[i], orig[i+1])
		back := df(orig[i+1], orig[i])
		if !closeRel(dists[i], want, 1e-12) || !closeRel(back, want, 1e-12) {
			return fmt.Errorf("distance function %s: segment %d %v -> %v measures %v forward and %v backward, the harness's own formula gives %v",
				c.DF, i, orig[i], orig[i+1], dists[i], back, want)
		}
	}

	if c.Mode == "resample" {
		wantN = []int{c.N}
	} else {
		q := total / d
		fl := math.Floor(q)
		wantN = []int{int(fl) + 1}
		// when total/d is within 1e-9 of an integer - but not exactly that integer - either neighbouring
		// count is accepted (one ulp in the summed length decides it). When the float quotient IS an integer
		// (d divides the length exactly, a case the property's quantifier names, e.g. d == length) the count
		// must be exactly floor(q)+1: total is accumulated left to right like the statement's "length".
		if r := math.Round(q); q != r && math.Abs(q-r) <= 1e-9*math.Max(1, q) {
			wantN = []int{int(r), int(r) + 1}
			if r == 0 {
				wantN = []int{1}
			}
		}
	}
	okN := false
	for _, w := range wantN {
		if len(out) == w {
			okN = true
		}
	}
	if !okN {
		return fmt.Errorf("%s returned %d points, want %v (total=%v d=%v)", c.Mode, len(out), wantN, total, d)
	}
	N := len(out)

	for _, p := range out {
		if math.IsNaN(p[0]) || math.IsNaN(p[1]) || math.IsInf(p[0], 0) || math.IsInf(p[1], 0) {
			return fmt.Errorf("non-finite output point %v", p)
		}
	}

	if allEqual(orig) {
		for k, p := range out {
			if p != orig[0] {
				return fmt.Errorf("all-coincident line: output %d is %v, want %v", k, p, orig[0])
			}
		}
		return nil
	}

	// tolerance relative to the line itself (no absolute "1 +" term, which would make every check vacuous for
	// lines at a tiny scale): 1e-9 of the line's extent plus a few ulps of its coordinate magnitude.
	scale, lo, hi := 0.0, orig[0], orig[0]
	for _, p := range orig {
		scale = math.Max(scale, math.Max(math.Abs(p[0]), math.Abs(p[1])))
		for k := 0; k < 2; k++ {
			lo[k], hi[k] = math.Min(lo[k], p[k]), math.Max(hi[k], p[k])
		}
	}
	extent := math.Max(hi[0]-lo[0], hi[1]-lo[1])
	tol := 1e-9*extent + 64*0x1p-52*scale

	// endpoints bit-equal
	if math.Float64bits(out[0][0]) != math.Float64bits(orig[0][0]) || math.Float64bits(out[0][1]) != math.Float64bits(orig[0][1]) {
		return fmt.Errorf("first output %v is not the start vertex %v", out[0], orig[0])
	}
	if N > 1 {
		last := orig[len(orig)-1]
		if math.Float64bits(out[N-1][0]) != math.Float64bits(last[0]) || math.Float64bits(out[N-1][1]) != math.Float64bits(last[1]) {
			return fmt.Errorf("last output %v is not the end vertex %v", out[N-1], last)
		}
	}
	for k, p := range out {
		target := 0.0
		if N > 1 {
			target = total * float64(k) / float64(N-1)
		}
		e := expectedAt(orig, dists, target)
		if k == 0 {
			e = orig[0]
		}
		if total == 0 {
			// distinct vertices whose measured length is 0: every arc-length position is 0 = total, so any
			// point of the line is at the right place; only the end points (above) and "on the line" (below) bind.
			e = p
		}
		if math.Abs(p[0]-e[0]) > tol || math.Abs(p[1]-e[1]) > tol {
			// a target that falls within rounding of a vertex may legitimately be
			// attributed to either neighbouring segment: both candidates are within
			// rounding of that vertex, so the tolerance already covers it.
			return fmt.Errorf("output %d of %d is %v, want %v (arc length %v of %v)", k, N, p, e, target, total)
		}
		if dl := distToLine(p, orig); dl > tol {
			return fmt.Errorf("output %d = %v is %v away from the input line", k, p, dl)
		}
	}
	return nil
}

func genLine(t *rapid.T, geoCoords bool) (orb.LineString, bool) {
	shape := rapid.IntRange(0, 19).Draw(t, "shape")
	switch shape {
	case 0:
		return nil, true
	case 1:
		return orb.LineString{}, false
	}
	n := rapid.IntRange(1, 8).Draw(t, "n")
	if shape == 2 {
		n = 1
	}
	coincident := shape == 3
	tiny := shape == 4 // distinct vertices whose measured length underflows to (nearly) zero
	lattice := rapid.Bool().Draw(t, "lattice")
	// planar lines are also generated at other length scales (exact power-of-two scaling: 1e-18 .. 1e18):
	// nothing in the property depends on the unit of length.
	pow := 0
	if !geoCoords && rapid.IntRange(0, 2).Draw(t, "rescale") == 0 {
		pow = rapid.IntRange(-60, 60).Draw(t, "pow2")
	}
	ls := make(orb.LineString, n)
	for i := range ls {
		var p orb.Point
		switch {
		case geoCoords && lattice:
			p = orb.Point{float64(rapid.IntRange(-179, 179).Draw(t, "lon")), float64(rapid.IntRange(-80, 80).Draw(t, "lat"))}
		case geoCoords:
			p = orb.Point{rapid.Float64Range(-179, 179).Draw(t, "lon"), rapid.Float64Range(-80, 80).Draw(t, "lat")}
		case lattice:
			p = orb.Point{float64(rapid.IntRange(-4, 4).Draw(t, "x")), float64(rapid.IntRange(-4, 4).Draw(t, "y"))}
		default:
			p = orb.Point{rapid.Float64Range(-1000, 1000).Draw(t, "x"), rapid.Float64Range(-1000, 1000).Draw(t, "y")}
		}
		if tiny {
			p = orb.Point{float64(rapid.IntRange(0, 3).Draw(t, "tx")) * 1e-200, float64(rapid.IntRange(0, 3).Draw(t, "ty")) * 1e-170}
		}
		if pow != 0 && !tiny {
			p = orb.Point{math.Ldexp(p[0], pow), math.Ldexp(p[1], pow)}
		}
		ls[i] = p
		if i > 0 && (coincident || rapid.IntRange(0, 5).Draw(t, "rep") == 0) {
			ls[i] = ls[i-1]
		}
	}
	return ls, false
}

func TestPropResample(t *testing.T) {
	stats.Assume("distance functions are planar.Distance, geo.Distance, geo.DistanceHaversine; geo functions get lon/lat inputs with |lat| <= 80")
	stats.Assume("ToInterval distances are >= total/3000 so that the output stays small")
	stats.Check(t, 1000000, 20000000, func(rt *rapid.T) {
		c := drawCase(rt)
		classify(c, c.line())
		stats.Try(rt, "TestPropResample", c, func() error { return checkCase(c) })
	})
}

// drawCase draws one case of TestPropResample.
func drawCase(rt *rapid.T) Case {
	{
		c := Case{}
		c.DF = rapid.SampledFrom([]string{"planar", "planar", "geo", "haversine", "planar-reentrant"}).Draw(rt, "df")
		ls, isNil := genLine(rt, c.DF != "planar")
		c.Line, c.Nil = gen.Pts(ls), isNil
		c.Mode = rapid.SampledFrom([]string{"resample", "resample", "interval"}).Draw(rt, "mode")
		if c.Mode == "resample" {
			c.N = rapid.OneOf(rapid.IntRange(-1, 3), rapid.IntRange(1, 60)).Draw(rt, "N")
		} else {
			total := 0.0
			df := distFunc(c.DF)
			for i := 0; i+1 < len(ls); i++ {
				total += df(ls[i], ls[i+1])
			}
			switch rapid.IntRange(0, 5).Draw(rt, "dk") {
			case 0:
				c.D = gen.F(rapid.SampledFrom([]float64{0, -1, math.Copysign(0, -1)}).Draw(rt, "dneg"))
			case 1:
				c.D = gen.F(total*2 + 1)
			case 2:
				c.D = gen.F(total / float64(rapid.IntRange(1, 40).Draw(rt, "k")))
			default:
				c.D = gen.F(rapid.Float64Range(total/60, 2*total+1).Draw(rt, "d"))
			}
			if total > 0 && float64(c.D) > 0 && float64(c.D) < total/3000 {
				c.D = gen.F(total / 3000)
			}
			if total == 0 && float64(c.D) > 0 {
				c.D = gen.F(math.Max(float64(c.D), 1e-3))
			}
		}
		return c
	}
}

// TestPropConcurrent evaluates several independent cases at the same time on separate goroutines.
// Resample/ToInterval are functions of their arguments only, so every case must still agree with the
// model: a disagreement means concurrent callers share state inside the library (scratch tables kept in
// package variables, pooled buffers).
func TestPropConcurrent(t *testing.T) {
	stats.Check(t, 4000, 100000, func(rt *rapid.T) {
		n := rapid.IntRange(2, 8).Draw(rt, "goroutines")
		cs := make([]Case, n)
		for i := range cs {
			cs[i] = drawCase(rt)
		}
		stats.Class(fmt.Sprintf("concurrent:%d goroutines", n))
		nt := 0
		for _, c := range cs {
			if len(c.Line) >= 3 && !allEqual(c.line()) {
				nt++
			}
		}
		if nt >= 2 {
			stats.NonTrivial("conc:" + gen.JSON(cs))
			if stats.WantSample("concurrent") {
				stats.Sample("concurrent", cs)
			}
		}
		stats.TryParallel(rt, "TestPropConcurrent", cs, n, 25, func(i int) error { return checkCase(cs[i]) })
	})
}

func classify(c Case, ls orb.LineString) {
	stats.Class("mode:" + c.Mode)
	stats.Class("df:" + c.DF)
	switch {
	case len(ls) <= 1:
		stats.Class("line:<=1 vertex")
	case allEqual(ls):
		stats.Class("line:all coincident")
	default:
		stats.Class("line:positive length")
		total := 0.0
		for i := 0; i+1 < len(ls); i++ {
			total += distFunc(c.DF)(ls[i], ls[i+1])
		}
		if total == 0 {
			stats.Class("line:distinct vertices, measured length 0")
		}
	}
	if c.Mode == "resample" && c.N <= 0 {
		stats.Class("arg:non-positive N")
	}
	if c.Mode == "interval" && float64(c.D) <= 0 {
		stats.Class("arg:non-positive d")
	}
	nOut := c.N
	if c.Mode == "interval" {
		nOut = 3 // counted as non-trivial when the line qualifies; the count is data dependent
	}
	if nOut >= 3 && len(ls) >= 3 && !allEqual(ls) {
		key := gen.JSON(c)
		stats.NonTrivial(key)
		if stats.WantSample(c.Mode) {
			stats.Sample(c.Mode, c)
		}
	}
}

// TestEnumSmall enumerates every line of <= 3 vertices over a 3x3 lattice with every N in 0..7
// and every interval total/k: the degenerate shapes (zero-length first/middle/last segments) are dense here.
func TestEnumSmall(t *testing.T) {
	pts := []orb.Point{}
	for x := 0; x < 3; x++ {
		for y := 0; y < 3; y++ {
			pts = append(pts, orb.Point{float64(x), float64(y)})
		}
	}
	var idx, size int64
	run := func(ls orb.LineString) {
		for n := -1; n <= 7; n++ {
			idx++
			size++
			if !stats.Mine(idx) {
				continue
			}
			c := Case{Line: gen.Pts(ls), Mode: "resample", N: n, DF: "planar"}
			stats.Eval("TestEnumSmall", 1)
			if n >= 3 && len(ls) >= 3 && !allEqual(ls) {
				stats.NonTrivial(gen.JSON(c))
			}
			stats.TryT(t, "TestEnumSmall", c, func() error { return checkCase(c) })
		}
		total := 0.0
		for i := 0; i+1 < len(ls); i++ {
			total += planar.Distance(ls[i], ls[i+1])
		}
		for k := 1; k <= 4; k++ {
			idx++
			size++
			if !stats.Mine(idx) || total == 0 {
				continue
			}
			c := Case{Line: gen.Pts(ls), Mode: "interval", D: gen.F(total / float64(k)), DF: "planar"}
			stats.Eval("TestEnumSmall", 1)
			stats.TryT(t, "TestEnumSmall", c, func() error { return checkCase(c) })
		}
	}
	for _, a := range pts {
		run(orb.LineString{a})
		for _, b := range pts {
			run(orb.LineString{a, b})
			for _, c := range pts {
				run(orb.LineString{a, b, c})
				if stats.Thorough() {
					for _, d := range pts {
						run(orb.LineString{a, b, c, d})
					}
				}
			}
		}
	}
	stats.Subspace("lines of <= 3 (thorough: 4) vertices on the 3x3 lattice x N in -1..7 and d = total/1..4", size, true)
}

func TestReplay(t *testing.T) {
	_, raw, ok := stats.Replaying()
	if !ok {
		t.Skip("no replay file")
	}
	if name, _, _ := stats.Replaying(); name == "TestEnumLarge" {
		var lc LargeCase
		if err := json.Unmarshal(raw, &lc); err != nil {
			t.Fatal(err)
		}
		if err := stats.Guard(func() error { return checkLarge(lc) }); err != nil {
			t.Fatalf("replayed case still fails: %v", err)
		}
		return
	}
	if name, _, _ := stats.Replaying(); name == "TestPropConcurrent" {
		var cs []Case
		if err := json.Unmarshal(raw, &cs); err != nil {
			t.Fatal(err)
		}
		for k := 0; k < 20; k++ {
			if err := stats.ParallelErr(len(cs), 200, func(i int) error { return checkCase(cs[i]) }); err != nil {
				t.Fatalf("replayed concurrent group still fails: %v", err)
			}
		}
		return
	}
	var c Case
	if err := json.Unmarshal(raw, &c); err != nil {
		t.Fatal(err)
	}
	if err := stats.Guard(func() error { return checkCase(c) }); err != nil {
		t.Fatalf("replayed case still fails: %v", err)
	}
}
