package c17

import (
	"fmt"
	"math"
	"testing"

	"github.com/paulmach/orb"
	"github.com/paulmach/orb/planar"
	"github.com/paulmach/orb/resample"

	"verifharness/internal/gen"
	"verifharness/internal/stats"
)

// LargeCase is a procedurally built line (so the replay file stays tiny) resampled to a large count:
// the size ladder for the two size dimensions of the property, the number of vertices of the line and the
// number of points asked for (Resample's N, ToInterval's length/d). Constants inside the implementation
// (a pre-allocation cap, a batch size, an index type) sit far above the sizes the random search reaches.
type LargeCase struct {
	Shape string `json:"shape"` // zigzag | stairs | repeats
	V     int    `json:"vertices"`
	Mode  string `json:"mode"` // resample | interval
	N     int    `json:"n"`    // points asked for (interval: d = total/(N-1), adjusted to sit mid-way)
}

func (c LargeCase) line() orb.LineString {
	ls := make(orb.LineString, c.V)
	for i := range ls {
		switch c.Shape {
		case "stairs":
			ls[i] = orb.Point{float64((i + 1) / 2), float64(i / 2)}
		case "repeats": // every third vertex repeats its predecessor (zero-length segments)
			j := i - i/3
			if i == c.V-1 && i%3 == 0 && i > 0 {
				j++ // the line never ends on a zero-length segment
			}
			ls[i] = orb.Point{float64(j) * 0.5, float64(j%2) * 3}
		default:
			ls[i] = orb.Point{float64(i) * 0.75, float64(i%2) * 2}
		}
	}
	return ls
}

// checkLarge compares every output point with a single forward walk along the line: O(V + N).
func checkLarge(c LargeCase) error {
	ls := c.line()
	in := make(orb.LineString, len(ls))
	copy(in, ls)
	dists := make([]float64, len(ls)-1)
	total := 0.0
	for i := range dists {
		dx, dy := ls[i+1][0]-ls[i][0], ls[i+1][1]-ls[i][1]
		dists[i] = math.Sqrt(dx*dx + dy*dy)
		total += dists[i]
	}
	var out orb.LineString
	want := c.N
	if c.Mode == "interval" {
		// d chosen so that length/d = N-1+0.5: floor(length/d)+1 = N, half a step away from either neighbour
		d := total / (float64(c.N-1) + 0.5)
		out = resample.ToInterval(in, planar.Distance, d)
	} else {
		out = resample.Resample(in, planar.Distance, c.N)
	}
	if len(out) != want {
		return fmt.Errorf("%s of a %d-vertex %s line asked for %d points, returned %d", c.Mode, c.V, c.Shape, want, len(out))
	}
	// (the input copy `in` may have been modified: both functions are documented to do so)
	if out[0] != ls[0] || out[want-1] != ls[len(ls)-1] {
		return fmt.Errorf("end points %v .. %v, want %v .. %v", out[0], out[want-1], ls[0], ls[len(ls)-1])
	}
	extent := math.Max(ls[len(ls)-1][0]-ls[0][0], 3)
	tol := 1e-9*extent + 64*0x1p-52*extent
	seg, before := 0, 0.0 // the walk: segment index and arc length at its start
	for k := 1; k < want-1; k++ {
		target := total * float64(k) / float64(want-1)
		for seg < len(dists)-1 && before+dists[seg] < target {
			before += dists[seg]
			seg++
		}
		// zero-length segments are never the carrier of an interior target
		for dists[seg] == 0 && seg < len(dists)-1 {
			seg++
		}
		f := (target - before) / dists[seg]
		e := orb.Point{ls[seg][0] + f*(ls[seg+1][0]-ls[seg][0]), ls[seg][1] + f*(ls[seg+1][1]-ls[seg][1])}
		if math.Abs(out[k][0]-e[0]) > tol || math.Abs(out[k][1]-e[1]) > tol {
			return fmt.Errorf("%s of a %d-vertex %s line to %d points: output %d is %v, want %v (arc length %v of %v)",
				c.Mode, c.V, c.Shape, want, k, out[k], e, target, total)
		}
	}
	return nil
}

// ladder returns {2^k-2 .. 2^k+3, 1.5*2^k+1 : k = 6..top} ∪ {10^k-2 .. 10^k+3} up to max.
func ladder(max int) []int {
	seen := map[int]bool{}
	var out []int
	add := func(v int) {
		if v >= 3 && v <= max && !seen[v] {
			seen[v] = true
			out = append(out, v)
		}
	}
	// a limit L shows only a few elements past it (a result capped at L whose last slot is padded with the
	// end vertex is still right for L+1 points): rungs L-2 .. L+3, and one rung half-way to the next power
	for k := 6; k <= 26; k++ {
		for d := -2; d <= 3; d++ {
			add(1<<uint(k) + d)
		}
		add(1<<uint(k) + 1<<uint(k-1) + 1)
	}
	for p := 100; p <= 100000000; p *= 10 {
		for d := -2; d <= 3; d++ {
			add(p + d)
		}
	}
	return out
}

// TestEnumLarge: the size ladder. Output counts to 2^22+1 in quick (64 MiB of points, ~0.1 s) and 2^24+1 in
// thorough; vertex counts to 2^20+1 (quick) / 2^22+1 (thorough). Above that one case costs more than a second
// and a gigabyte for nothing the property distinguishes.
func TestEnumLarge(t *testing.T) {
	maxN, maxV := 1<<22+3, 1<<20+3
	if stats.Thorough() {
		maxN, maxV = 1<<24+3, 1<<22+3
	}
	var idx, size int64
	run := func(c LargeCase) {
		idx++
		size++
		if !stats.Mine(idx) {
			return
		}
		stats.Eval("TestEnumLarge", 1)
		stats.Class("large:" + c.Mode + "/" + c.Shape)
		stats.NonTrivial("large:" + gen.JSON(c))
		if c.N >= 1<<20 && stats.WantSample("large") {
			stats.Sample("large", c)
		}
		stats.TryT(t, "TestEnumLarge", c, func() error { return checkLarge(c) })
	}
	shapes := []string{"zigzag", "stairs", "repeats"}
	for i, n := range ladder(maxN) { // many output points from a short line
		for _, mode := range []string{"resample", "interval"} {
			run(LargeCase{Shape: shapes[i%3], V: 2 + i%5, Mode: mode, N: n})
		}
	}
	for i, v := range ladder(maxV) { // many vertices, few and as-many output points
		run(LargeCase{Shape: shapes[i%3], V: v, Mode: "resample", N: 3 + i%9})
		run(LargeCase{Shape: shapes[(i+1)%3], V: v, Mode: "interval", N: 5 + i%7})
		run(LargeCase{Shape: shapes[(i+2)%3], V: v, Mode: "resample", N: v - 1})
		run(LargeCase{Shape: shapes[i%3], V: v, Mode: "resample", N: 2*v + 1})
	}
	stats.Subspace(fmt.Sprintf("size ladder 2^k-2..2^k+3, 1.5*2^k+1, 10^k-2..10^k+3: output count to %d x {resample, interval}; vertex count to %d x 4 count choices; 3 procedural shapes", maxN, maxV), size, true)
}
