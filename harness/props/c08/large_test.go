package c08

import (
	"fmt"
	"math"
	"testing"

	"github.com/paulmach/orb"
	"github.com/paulmach/orb/clip"

	"verifharness/internal/gen"
	"verifharness/internal/stats"
)

// LargeCase is a procedurally built case (so the replay file stays tiny): the size ladder for the
// size dimensions of ring / polygon / generic clipping - nesting depth of collections, members
// per collection or multi-geometry, rings per polygon, vertices per ring, vertices of the output.
// Constants inside an implementation (a recursion limit, a member bitmask, a run-skip length, a
// buffer cap) sit far above the sizes the random search reaches.
type LargeCase struct {
	Dim  string `json:"dim"`  // depth | points | multipoint | lines | polygons | rings | convex | comb | zigzag
	N    int    `json:"n"`    // the size
	Leaf string `json:"leaf"` // depth: what sits at the bottom of the chain (inside | outside | ring)
}

var largeBox = orb.Bound{Min: orb.Point{0, 0}, Max: orb.Point{8, 6}}

func square(x, y, s float64) orb.Ring {
	return orb.Ring{{x, y}, {x + s, y}, {x + s, y + s}, {x, y + s}, {x, y}}
}

// build returns the box and geometry of every dimension except depth.
func (c LargeCase) build() (orb.Bound, orb.Geometry) {
	n := c.N
	box := largeBox
	at := func(i int) (float64, float64) { // positions cycling through inside, on the edge, outside
		return float64(i%12) - 2, float64((i/12)%10) - 2
	}
	switch c.Dim {
	case "points": // a collection of n points
		col := make(orb.Collection, n)
		for i := range col {
			x, y := at(i)
			col[i] = orb.Point{x, y}
		}
		return box, col
	case "multipoint":
		mp := make(orb.MultiPoint, n)
		for i := range mp {
			x, y := at(i)
			mp[i] = orb.Point{x, y}
		}
		return box, mp
	case "lines": // n two-vertex lines: crossing, inside, outside, along an edge
		mls := make(orb.MultiLineString, n)
		for i := range mls {
			x := float64(i % 9)
			switch i % 4 {
			case 0:
				mls[i] = orb.LineString{{x, -1}, {x, 7}}
			case 1:
				mls[i] = orb.LineString{{x, 1}, {x, 5}}
			case 2:
				mls[i] = orb.LineString{{x, 7}, {x, 9}}
			default:
				mls[i] = orb.LineString{{x, 6}, {x + 1, 6}}
			}
		}
		return box, mls
	case "polygons": // n unit squares on a grid that straddles the box
		mp := make(orb.MultiPolygon, n)
		for i := range mp {
			x, y := at(i)
			mp[i] = orb.Polygon{square(x+0.5, y+0.5, 1)}
		}
		return box, mp
	case "rings": // one polygon: a big outer ring and n-1 small holes inside, across the edge and outside the box
		p := make(orb.Polygon, n)
		p[0] = orb.Ring{{-4, -4}, {12, -4}, {12, 10}, {-4, 10}, {-4, -4}}
		for i := 1; i < n; i++ {
			x, y := at(i)
			p[i] = square(x+0.25, y+0.25, 0.5)
		}
		return box, p
	case "convex": // a regular n-gon around the box centre, radius 4.5: densified convex ring, long one-sided runs
		r := make(orb.Ring, 0, n+1)
		for i := 0; i < n; i++ {
			a := 2 * math.Pi * float64(i) / float64(n)
			r = append(r, orb.Point{4 + 4.5*math.Cos(a), 3 + 4.5*math.Sin(a)})
		}
		return box, append(r, r[0])
	case "comb", "zigzag":
		// the box is [n/4, 3n/4] x [0, 6]; the upper outline runs from x = 0 to x = n-1 at heights that
		// alternate across the top edge (comb: 5 and 7; zigzag: -1 and 7, across the whole box), and
		// the ring closes far below: the output has thousands of vertices
		w := float64(n)
		box = orb.Bound{Min: orb.Point{math.Floor(w / 4), 0}, Max: orb.Point{math.Floor(3 * w / 4), 6}}
		lo := 5.0
		if c.Dim == "zigzag" {
			lo = -1
		}
		r := make(orb.Ring, 0, n+3)
		for i := 0; i < n-3; i++ {
			y := 7.0
			if i%2 == 1 {
				y = lo
			}
			r = append(r, orb.Point{float64(i), y})
		}
		r = append(r, orb.Point{w, -3}, orb.Point{0, -3})
		return box, append(r, r[0])
	}
	panic("unknown dimension " + c.Dim)
}

// checkDepth: a chain of n single-member collections around a leaf. A collection with one member
// left is unwrapped to that member at every level, so clip.Geometry must return exactly what the
// leaf alone gives, and clip.Collection one level less unwrapped. The oracle is O(n) and uses none
// of the recursive helpers.
func checkDepth(c LargeCase) error {
	var leaf orb.Geometry
	switch c.Leaf {
	case "outside":
		leaf = orb.Point{9, 9}
	case "ring":
		leaf = square(6, 4, 4)
	default:
		leaf = orb.Point{1, 1}
	}
	chain := func() orb.Geometry {
		g := gen.DeepCopy(leaf)
		for i := 0; i < c.N; i++ {
			g = orb.Collection{g}
		}
		return g
	}
	want := expect(largeBox, leaf)
	got := clip.Geometry(largeBox, chain())
	if ok, why := gen.SameBits(got, want); !ok || (got == nil) != (want == nil) {
		return fmt.Errorf("clip.Geometry of %d nested single-member collections around %s gives %s, the member alone gives %s: %s", c.N, gen.Canon(leaf), gen.Canon(got), gen.Canon(want), why)
	}
	col := clip.Collection(largeBox, chain().(orb.Collection))
	if want == nil {
		if len(col) != 0 {
			return fmt.Errorf("clip.Collection of the chain gives %d members, want none", len(col))
		}
		return nil
	}
	if len(col) != 1 {
		return fmt.Errorf("clip.Collection of %d nested single-member collections gives %d members, want 1", c.N, len(col))
	}
	if ok, why := gen.SameBits(col[0], want); !ok {
		return fmt.Errorf("clip.Collection of the chain gives %s, want %s: %s", gen.Canon(col[0]), gen.Canon(want), why)
	}
	return nil
}

func checkLarge(c LargeCase) error {
	if c.Dim == "depth" {
		return checkDepth(c)
	}
	box, g := c.build()
	return checkCase(Case{Box: gen.FromBound(box), G: gen.G{V: g}, QSeed: uint64(c.N),
		SplitX: gen.F(math.Floor((box.Min[0]+box.Max[0])/2) + 0.5), SplitY: gen.F(2.5)})
}

// ladder returns {2^k-2 .. 2^k+3, 1.5*2^k+1 : k >= 6} and {10^k-2 .. 10^k+3 : k >= 2} up to max.
func ladder(max int) []int {
	seen := map[int]bool{}
	var out []int
	add := func(v int) {
		if v >= 4 && v <= max && !seen[v] {
			seen[v] = true
			out = append(out, v)
		}
	}
	for k := 6; k <= 26; k++ {
		for d := -2; d <= 3; d++ {
			add(1<<uint(k) + d)
		}
		add(1<<uint(k) + 1<<uint(k-1) + 1)
	}
	for p := 100; p <= 100000000; p *= 10 {
		for d := -2; d <= 3; d++ {
			add(p + d)
		}
	}
	return out
}

// TestEnumLarge: the size ladder (rungs 2^k-2..2^k+3, 1.5*2^k+1, 10^k-2..10^k+3).
//
// Nesting depth: the unchanged clip.Geometry recomputes the bound of the whole subtree at every
// level, so its cost is quadratic in the depth (measured: 0.9 s at 4099, 8 s at 16387, 40 s at
// 32771, 160 s at 65539, 750 s at 131075 - it survives 2^17+3 levels without exhausting the stack).
// The ladder therefore runs to 2051 in the quick tier plus the single rung 10003, and to 16387
// in the thorough tier plus the single rung 32771.
// Cheap dimensions (points per collection, points per multi-point, vertices per ring as regular
// n-gon / comb / zigzag, the latter two with as many output vertices; ~10 us per element with the
// full oracle): every rung to 2^14+3 in the quick tier plus 2^16+1, 2^16+2 and 2^17+2; every rung
// to 2^18+3 in the thorough tier plus the neighbourhoods of 10^6 and 2^20.
// Dear dimensions (lines per multi-line, polygons per multi-polygon, rings per polygon; 30-100 us
// per member, each member gets the whole ring / line oracle): every rung to 4099 in the quick tier
// plus 65538; every rung to 2^16+3 in the thorough tier plus 2^17+2 and 10^6+2.
func TestEnumLarge(t *testing.T) {
	assumptions()
	thorough := stats.Thorough()
	cheapTop, cheapExtra := 1<<14+3, []int{1<<16 + 1, 1<<16 + 2, 1<<17 + 2}
	dearTop, dearExtra := 4099, []int{65538}
	depthTop, depthExtra := 2051, []int{10003}
	if thorough {
		cheapTop, cheapExtra = 1<<18+3, nil
		for _, l := range []int{1000000, 1 << 20} {
			for d := -2; d <= 3; d++ {
				cheapExtra = append(cheapExtra, l+d)
			}
		}
		dearTop, dearExtra = 1<<16+3, []int{1<<17 + 2, 1000002}
		depthTop, depthExtra = 16387, []int{32771}
	}
	var idx, size int64
	run := func(c LargeCase) {
		idx++
		size++
		if !stats.Mine(idx) {
			return
		}
		stats.Eval("TestEnumLarge", 1)
		stats.Class("large:" + c.Dim)
		stats.NonTrivial("large:" + gen.JSON(c))
		if stats.WantSample("large") {
			stats.Sample("large", c)
		}
		stats.TryT(t, "TestEnumLarge", c, func() error { return checkLarge(c) })
	}
	cheap := []string{"points", "multipoint", "convex", "comb", "zigzag"}
	dear := []string{"lines", "polygons", "rings"}
	for _, n := range append(ladder(cheapTop), cheapExtra...) {
		for _, d := range cheap {
			run(LargeCase{Dim: d, N: n})
		}
	}
	for _, n := range append(ladder(dearTop), dearExtra...) {
		for _, d := range dear {
			run(LargeCase{Dim: d, N: n})
		}
	}
	leaves := []string{"inside", "outside", "ring"}
	k := 0
	for _, n := range ladder(depthTop) {
		run(LargeCase{Dim: "depth", N: n, Leaf: leaves[k%3]})
		k++
	}
	for _, n := range depthExtra {
		run(LargeCase{Dim: "depth", N: n, Leaf: "inside"})
	}
	stats.Subspace(fmt.Sprintf("size ladder: points per collection / multi-point and vertices per ring (n-gon, comb, zigzag) up to %d and %v; lines per multi-line, polygons per multi-polygon, rings per polygon up to %d and %v; nesting depth of single-member collections up to %d and %v", cheapTop, cheapExtra, dearTop, dearExtra, depthTop, depthExtra), size, true)
}
