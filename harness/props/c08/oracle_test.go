package c08

import (
	"fmt"
	"math"
	"math/big"

	"github.com/paulmach/orb"
	"github.com/paulmach/orb/clip"
	"github.com/paulmach/orb/encoding/mvt"
	"github.com/paulmach/orb/geojson"

	"verifharness/internal/exact"
	"verifharness/internal/gen"
	"verifharness/internal/kf"
	"verifharness/internal/stats"
)

// Case is one generated input (also the replay format): a box, a geometry of
// any kind (the ring tests use a bare orb.Ring), the seed of the query points
// and the two coordinates at which the box is split for the area clause.
type Case struct {
	Box    gen.B  `json:"box"`
	G      gen.G  `json:"g"`
	QSeed  uint64 `json:"qseed"`
	SplitX gen.F  `json:"split_x"`
	SplitY gen.F  `json:"split_y"`
}

const nQueries = 24

// ---------------------------------------------------------------- own geometry helpers (nothing from orb)

func inBox(b orb.Bound, p orb.Point) bool {
	return p[0] >= b.Min[0] && p[0] <= b.Max[0] && p[1] >= b.Min[1] && p[1] <= b.Max[1]
}

func finite(p orb.Point) bool {
	return !math.IsNaN(p[0]) && !math.IsNaN(p[1]) && !math.IsInf(p[0], 0) && !math.IsInf(p[1], 0)
}

func bitEq(a, b orb.Point) bool {
	return math.Float64bits(a[0]) == math.Float64bits(b[0]) && math.Float64bits(a[1]) == math.Float64bits(b[1])
}

func samePts(a, b []orb.Point) bool {
	if len(a) != len(b) {
		return false
	}
	for i := range a {
		if !bitEq(a[i], b[i]) {
			return false
		}
	}
	return true
}

func copyRing(r orb.Ring) orb.Ring {
	if r == nil {
		return nil
	}
	out := make(orb.Ring, len(r))
	copy(out, r)
	return out
}

// closed: first vertex equals last (as numbers: -0 equals 0, as in orb).
func closed(r orb.Ring) bool { return len(r) > 0 && r[0] == r[len(r)-1] }

// evenOdd: crossing-number parity of the closed polyline r at q (the last
// vertex is joined to the first). Only called for q farther than the margin
// from every edge, where the float evaluation is reliable.
func evenOdd(r orb.Ring, q orb.Point) bool {
	in := false
	n := len(r)
	for i := 0; i < n; i++ {
		a, b := r[i], r[(i+1)%n]
		if (a[1] > q[1]) != (b[1] > q[1]) {
			xi := a[0] + (q[1]-a[1])/(b[1]-a[1])*(b[0]-a[0])
			if xi > q[0] {
				in = !in
			}
		}
	}
	return in
}

func segDist(a, b, p orb.Point) float64 {
	dx, dy := b[0]-a[0], b[1]-a[1]
	t := 0.0
	if l2 := dx*dx + dy*dy; l2 > 0 {
		t = ((p[0]-a[0])*dx + (p[1]-a[1])*dy) / l2
		t = math.Max(0, math.Min(1, t))
	}
	return math.Hypot(p[0]-(a[0]+t*dx), p[1]-(a[1]+t*dy))
}

func ringDist(r orb.Ring, p orb.Point) float64 {
	d := math.Inf(1)
	for i := 0; i < len(r); i++ {
		d = math.Min(d, segDist(r[i], r[(i+1)%len(r)], p))
	}
	return d
}

// shoelace returns the signed area of the closed polyline and the sum of the
// absolute values of its terms (the scale of its rounding error).
func shoelace(r orb.Ring) (area, abs float64) {
	for i := 0; i < len(r); i++ {
		a, b := r[i], r[(i+1)%len(r)]
		area += a[0]*b[1] - b[0]*a[1]
		abs += math.Abs(a[0]*b[1]) + math.Abs(b[0]*a[1])
	}
	return area / 2, abs / 2
}

func scaleOf(box orb.Bound, g orb.Geometry) float64 {
	s := math.Max(math.Max(math.Abs(box.Min[0]), math.Abs(box.Min[1])), math.Max(math.Abs(box.Max[0]), math.Abs(box.Max[1])))
	_, bits := gen.Flatten(g)
	for _, b := range bits {
		if v := math.Abs(math.Float64frombits(b)); v > s && !math.IsInf(v, 0) {
			s = v
		}
	}
	return s
}

// tols are the tolerances of one case. None carries an absolute length unit
// (a case and its image under x -> 2^k x are judged alike):
//
//	slack[d]  how far outside the box an output ring vertex may lie on axis d:
//	          64 eps * largest |box coordinate| of that axis (the last clip pass
//	          interpolates between two values inside the box);
//	margin    membership is only asked at points farther than this from the
//	          input ring and the box sides (half of it from the output ring):
//	          1e-6 * larger box side + 1000 eps * largest |coordinate| (the float
//	          even-odd test itself is only reliable that far from an edge);
//	lineSmall 1e-9 * largest |coordinate|: a clipped line piece below twice this
//	          length is contact, not content (C07 judges line precision).
type tols struct {
	scale     float64
	slack     [2]float64
	margin    float64
	lineSmall float64
}

func tolsOf(box orb.Bound, g orb.Geometry) tols {
	m := scaleOf(box, g)
	t := tols{scale: m, lineSmall: 1e-9 * m}
	for d := 0; d < 2; d++ {
		t.slack[d] = exact.ClipK * exact.ClipEps * math.Max(math.Abs(box.Min[d]), math.Abs(box.Max[d]))
	}
	t.margin = 1e-6*math.Max(box.Max[0]-box.Min[0], box.Max[1]-box.Min[1]) + 1000*exact.ClipEps*m
	return t
}

func (t tols) inBox(b orb.Bound, p orb.Point) bool {
	return p[0] >= b.Min[0]-t.slack[0] && p[0] <= b.Max[0]+t.slack[0] && p[1] >= b.Min[1]-t.slack[1] && p[1] <= b.Max[1]+t.slack[1]
}

// shoelaceAt is shoelace with coordinates taken relative to o (differences of
// floats are rounded relative to themselves, so the result does not lose
// accuracy far from the origin); also returns the perimeter.
func shoelaceAt(r orb.Ring, o orb.Point) (area, abs, perim float64) {
	for i := 0; i < len(r); i++ {
		a, b := r[i], r[(i+1)%len(r)]
		ax, ay, bx, by := a[0]-o[0], a[1]-o[1], b[0]-o[0], b[1]-o[1]
		area += ax*by - bx*ay
		abs += math.Abs(ax*by) + math.Abs(bx*ay)
		perim += math.Hypot(bx-ax, by-ay)
	}
	return area / 2, abs / 2, perim
}

// queries derives the query points of a case from its seed (splitmix64):
// uniformly in the box; the callers skip those within the margin of anything.
func queries(box orb.Bound, seed uint64, n int) []orb.Point {
	next := func() float64 {
		seed += 0x9e3779b97f4a7c15
		z := seed
		z = (z ^ (z >> 30)) * 0xbf58476d1ce4e5b9
		z = (z ^ (z >> 27)) * 0x94d049bb133111eb
		z ^= z >> 31
		return float64(z>>11) / (1 << 53)
	}
	out := make([]orb.Point, n)
	for i := range out {
		out[i] = orb.Point{box.Min[0] + next()*(box.Max[0]-box.Min[0]), box.Min[1] + next()*(box.Max[1]-box.Min[1])}
	}
	return out
}

func deepInBox(box orb.Bound, q orb.Point, m float64) bool {
	return q[0]-box.Min[0] > m && box.Max[0]-q[0] > m && q[1]-box.Min[1] > m && box.Max[1]-q[1] > m
}

// ---------------------------------------------------------------- the ring oracle

// worst observed |A-(A1+A2)| / tolerance, and the number of membership queries judged exactly on
// rings with far vertices (statistics only)
var (
	worstArea  float64
	farQueries int64
)

type ringInfo struct {
	cut   bool // the output vertex list differs from the input's (the non-trivial rule)
	empty bool // nothing was returned
}

func rat(f float64) *big.Rat { return new(big.Rat).SetFloat64(f) }

// exactSide returns the sign of (b-a) x (q-a), exactly.
func exactSide(a, b, q orb.Point) int {
	l := new(big.Rat).Mul(new(big.Rat).Sub(rat(b[0]), rat(a[0])), new(big.Rat).Sub(rat(q[1]), rat(a[1])))
	r := new(big.Rat).Mul(new(big.Rat).Sub(rat(b[1]), rat(a[1])), new(big.Rat).Sub(rat(q[0]), rat(a[0])))
	return l.Cmp(r)
}

// exactEvenOdd is evenOdd in rational arithmetic (for rings with vertices very far from the box,
// where the float evaluation of a crossing is not reliable at the scale of the box).
func exactEvenOdd(r orb.Ring, q orb.Point) bool {
	in := false
	n := len(r)
	for i := 0; i < n; i++ {
		a, b := r[i], r[(i+1)%n]
		if (a[1] > q[1]) != (b[1] > q[1]) {
			// the crossing is to the right of q iff q is on the left of the edge directed upwards
			s := exactSide(a, b, q)
			if b[1] < a[1] {
				s = -s
			}
			if s > 0 {
				in = !in
			}
		}
	}
	return in
}

// nearEdgeExact: q is within band of the LINE through a and b (exact comparison of squares); used
// only for edges that reach the neighbourhood of the box.
func nearEdgeExact(a, b, q orb.Point, band float64) bool {
	dx, dy := new(big.Rat).Sub(rat(b[0]), rat(a[0])), new(big.Rat).Sub(rat(b[1]), rat(a[1]))
	l2 := new(big.Rat).Add(new(big.Rat).Mul(dx, dx), new(big.Rat).Mul(dy, dy))
	if l2.Sign() == 0 {
		return math.Hypot(q[0]-a[0], q[1]-a[1]) <= band
	}
	cr := new(big.Rat).Sub(new(big.Rat).Mul(dx, new(big.Rat).Sub(rat(q[1]), rat(a[1]))), new(big.Rat).Mul(dy, new(big.Rat).Sub(rat(q[0]), rat(a[0]))))
	lhs := new(big.Rat).Mul(cr, cr)
	rhs := new(big.Rat).Mul(new(big.Rat).Mul(rat(band), rat(band)), l2)
	return lhs.Cmp(rhs) <= 0
}

// farRing: some vertex lies more than 2^20 box sizes away from the box. For such rings the
// membership clause is judged at the scale of the BOX: even-odd membership in rational arithmetic,
// and a query is left out only when it is within 1e-6 box sizes plus twice that edge's own
// single-intersection rounding bound (64 eps (|coordinate| + |extent|), what a far end point costs a
// correct float intersection) of the line of an edge whose bounding rectangle reaches the box.
func farRing(box orb.Bound, ring orb.Ring) bool {
	size := math.Max(box.Max[0]-box.Min[0], box.Max[1]-box.Min[1])
	for _, p := range ring {
		for d := 0; d < 2; d++ {
			if p[d] < box.Min[d]-0x1p20*size || p[d] > box.Max[d]+0x1p20*size {
				return true
			}
		}
	}
	return false
}

func farQueryUsable(box orb.Bound, ring orb.Ring, q orb.Point) bool {
	size := math.Max(box.Max[0]-box.Min[0], box.Max[1]-box.Min[1])
	n := len(ring)
	for i := 0; i < n; i++ {
		a, b := ring[i], ring[(i+1)%n]
		t := exact.SegTolOf(a, b)
		band := 1e-6*size + 2*math.Max(t.RX, t.RY)
		if math.Max(a[0], b[0]) < box.Min[0]-band || math.Min(a[0], b[0]) > box.Max[0]+band ||
			math.Max(a[1], b[1]) < box.Min[1]-band || math.Min(a[1], b[1]) > box.Max[1]+band {
			continue // the edge stays clear of the box
		}
		if nearEdgeExact(a, b, q, band) {
			return false
		}
	}
	return true
}

// checkRing judges clip.Ring(box, ring) with the tolerances of tols. Areas:
// |A - (A1+A2)| <= 1e-12 * (sum of |shoelace terms| of the three rings, taken
// relative to the box corner) + (number of output vertices) * (largest
// single-intersection bound of the ring's edges)/8 * (box width + height).
// "Bound disjoint from the box" is demanded for a gap above the largest
// two-intersection bound of the ring's edges (a smaller gap is contact).
func checkRing(box orb.Bound, ring orb.Ring, qs []orb.Point, splitX, splitY float64, tl tols) (ringInfo, error) {
	var info ringInfo
	margin := tl.margin
	gap := exact.PathSmall(ring, true)
	out := clip.Ring(box, copyRing(ring)) // the input is documented scratch space: hand over a copy
	info.cut = !samePts(out, ring)
	info.empty = out == nil
	if out != nil && len(out) == 0 {
		return info, fmt.Errorf("clip.Ring returned an empty non-nil ring")
	}
	for i, p := range out {
		if !finite(p) || !tl.inBox(box, p) {
			return info, fmt.Errorf("output vertex %d = %v outside the box %v (slack %v); ring %v -> %v", i, p, box, tl.slack, ring, out)
		}
	}
	if !closed(ring) {
		return info, nil // the property speaks about closed rings only
	}
	if out != nil && !closed(out) {
		return info, fmt.Errorf("closed ring clipped to a ring that is not closed: %v -> %v", ring, out)
	}

	// bound inside the box: unchanged; bound disjoint from the box: nothing
	allIn, disjoint := true, false
	for d := 0; d < 2; d++ {
		lo, hi := math.Inf(1), math.Inf(-1)
		for _, p := range ring {
			lo, hi = math.Min(lo, p[d]), math.Max(hi, p[d])
		}
		if hi < box.Min[d]-gap || lo > box.Max[d]+gap {
			disjoint = true // by more than rounding: a gap far below the ulp of the coordinates is contact
		}
	}
	for _, p := range ring {
		if !inBox(box, p) {
			allIn = false
		}
	}
	if allIn && !samePts(out, ring) {
		return info, fmt.Errorf("ring wholly inside the box came back changed: %v -> %v", ring, out)
	}
	if disjoint && out != nil {
		return info, fmt.Errorf("ring whose bound is disjoint from the box %v gave %v (ring %v)", box, out, ring)
	}

	// region: even-odd membership is preserved at every interior query point
	far := farRing(box, ring)
	boxMargin := 1e-6 * math.Max(box.Max[0]-box.Min[0], box.Max[1]-box.Min[1])
	for _, q := range qs {
		if far {
			if !deepInBox(box, q, boxMargin) || !farQueryUsable(box, ring, q) {
				continue
			}
			if out != nil && ringDist(out, q) <= boxMargin/2+2*exact.PathSingle(ring, true) {
				continue
			}
			want := exactEvenOdd(ring, q)
			if got := out != nil && evenOdd(out, q); got != want {
				return info, fmt.Errorf("point %v inside the box %v: in clipped ring = %v, in original ring = %v (exact); ring with far vertices %v -> %v", q, box, got, want, ring, out)
			}
			farQueries++
			continue
		}
		if !deepInBox(box, q, margin) || ringDist(ring, q) <= margin {
			continue
		}
		if out != nil && ringDist(out, q) <= margin/2 {
			continue
		}
		want := evenOdd(ring, q)
		got := out != nil && evenOdd(out, q)
		if got != want {
			return info, fmt.Errorf("point %v inside the box %v: in clipped ring = %v, in original ring = %v; ring %v -> %v", q, box, got, want, ring, out)
		}
	}

	// signed area is additive over a split of the box
	a, abs, per := shoelaceAt(out, box.Min)
	single := exact.PathSingle(ring, true)
	for axis, s := range []float64{splitX, splitY} {
		if !(s > box.Min[axis] && s < box.Max[axis]) {
			continue
		}
		b1, b2 := box, box
		b1.Max[axis] = s
		b2.Min[axis] = s
		o1 := clip.Ring(b1, copyRing(ring))
		o2 := clip.Ring(b2, copyRing(ring))
		a1, abs1, per1 := shoelaceAt(o1, box.Min)
		a2, abs2, per2 := shoelaceAt(o2, box.Min)
		_, _, _ = per, per1, per2
		lim := 1e-12*(abs+abs1+abs2) + float64(len(out)+len(o1)+len(o2))*single/8*((box.Max[0]-box.Min[0])+(box.Max[1]-box.Min[1]))
		if math.Abs(a-(a1+a2)) > lim {
			return info, fmt.Errorf("signed area %v of the clip to %v is not the sum %v + %v of the clips to the halves split at %v=%v (tolerance %g); ring %v", a, box, a1, a2, "xy"[axis:axis+1], s, lim, ring)
		}
		if r := math.Abs(a-(a1+a2)) / lim; lim > 0 && r > worstArea {
			worstArea = r
		}
	}
	return info, nil
}

// ---------------------------------------------------------------- the generic entry point

func unwrapMLS(m orb.MultiLineString) orb.Geometry {
	switch len(m) {
	case 0:
		return nil
	case 1:
		return m[0]
	}
	return m
}

// expectPolygon composes the polygon rule from clip.Ring (judged by
// checkRing): no outer ring left -> nothing; holes that clip to nothing are
// dropped.
func expectPolygon(box orb.Bound, p orb.Polygon) orb.Polygon {
	if len(p) == 0 {
		return nil
	}
	outer := clip.Ring(box, copyRing(p[0]))
	if outer == nil {
		return nil
	}
	res := orb.Polygon{outer}
	for _, h := range p[1:] {
		if r := clip.Ring(box, copyRing(h)); r != nil {
			res = append(res, r)
		}
	}
	return res
}

func expectMultiPolygon(box orb.Bound, mp orb.MultiPolygon) orb.MultiPolygon {
	var res orb.MultiPolygon
	for _, p := range mp {
		if q := expectPolygon(box, p); q != nil {
			res = append(res, q)
		}
	}
	return res
}

func expectMultiPoint(box orb.Bound, mp orb.MultiPoint) orb.MultiPoint {
	var res orb.MultiPoint
	for _, p := range mp {
		if inBox(box, p) {
			res = append(res, p)
		}
	}
	return res
}

func expectCollection(box orb.Bound, c orb.Collection) orb.Collection {
	var res orb.Collection
	for _, m := range c {
		if g := expect(box, m); g != nil {
			res = append(res, g)
		}
	}
	return res
}

// extent is the bound of g computed here: all vertices, except that a polygon
// extends as far as its outer ring (holes lie inside it), a multi-polygon as
// far as its polygons and a collection as far as its members. ok is false for
// a geometry without vertices.
func extent(g orb.Geometry) (lo, hi [2]float64, ok bool) {
	lo = [2]float64{math.Inf(1), math.Inf(1)}
	hi = [2]float64{math.Inf(-1), math.Inf(-1)}
	add := func(p orb.Point) {
		ok = true
		for d := 0; d < 2; d++ {
			lo[d], hi[d] = math.Min(lo[d], p[d]), math.Max(hi[d], p[d])
		}
	}
	var walk func(g orb.Geometry)
	walk = func(g orb.Geometry) {
		switch v := g.(type) {
		case orb.Point:
			add(v)
		case orb.MultiPoint:
			for _, p := range v {
				add(p)
			}
		case orb.LineString:
			for _, p := range v {
				add(p)
			}
		case orb.MultiLineString:
			for _, l := range v {
				walk(l)
			}
		case orb.Ring:
			for _, p := range v {
				add(p)
			}
		case orb.Polygon:
			if len(v) > 0 {
				walk(v[0])
			}
		case orb.MultiPolygon:
			for _, p := range v {
				walk(p)
			}
		case orb.Collection:
			for _, m := range v {
				walk(m)
			}
		case orb.Bound:
			add(v.Min)
			add(v.Max)
		}
	}
	walk(g)
	return lo, hi, ok
}

// boundMeets: the extent of g and the box intersect as closed sets.
func boundMeets(box orb.Bound, g orb.Geometry) bool {
	lo, hi, ok := extent(g)
	if !ok {
		return false
	}
	return !(hi[0] < box.Min[0] || lo[0] > box.Max[0] || hi[1] < box.Min[1] || lo[1] > box.Max[1])
}

// expect composes what clip.Geometry must return from the per-kind rules:
// points filtered by exact containment, lines through clip.LineString (judged
// by C07), rings through clip.Ring (judged here), members that clip to
// nothing dropped, nil when nothing remains, a multi-geometry or collection
// with one member left unwrapped to that member.
func expect(box orb.Bound, g orb.Geometry) orb.Geometry {
	if g == nil || !boundMeets(box, g) {
		return nil // a geometry whose bound is disjoint from the box yields nothing (exact test)
	}
	switch v := g.(type) {
	case orb.Point:
		if inBox(box, v) {
			return v
		}
		return nil
	case orb.MultiPoint:
		r := expectMultiPoint(box, v)
		switch len(r) {
		case 0:
			return nil
		case 1:
			return r[0]
		}
		return r
	case orb.LineString:
		return unwrapMLS(clip.LineString(box, append(orb.LineString(nil), v...)))
	case orb.MultiLineString:
		var all orb.MultiLineString
		for _, l := range v {
			all = append(all, clip.LineString(box, append(orb.LineString(nil), l...))...)
		}
		return unwrapMLS(all)
	case orb.Ring:
		if r := clip.Ring(box, copyRing(v)); r != nil {
			return r
		}
		return nil
	case orb.Polygon:
		if p := expectPolygon(box, v); p != nil {
			return p
		}
		return nil
	case orb.MultiPolygon:
		r := expectMultiPolygon(box, v)
		switch len(r) {
		case 0:
			return nil
		case 1:
			return r[0]
		}
		return r
	case orb.Collection:
		r := expectCollection(box, v)
		switch len(r) {
		case 0:
			return nil
		case 1:
			return r[0]
		}
		return r
	case orb.Bound:
		lo := orb.Point{math.Max(box.Min[0], v.Min[0]), math.Max(box.Min[1], v.Min[1])}
		hi := orb.Point{math.Min(box.Max[0], v.Max[0]), math.Min(box.Max[1], v.Max[1])}
		if lo[0] > hi[0] || lo[1] > hi[1] {
			return nil
		}
		return orb.Bound{Min: lo, Max: hi}
	}
	panic(fmt.Sprintf("expect: %T", g))
}

// noEmpty: a result is nil or non-empty, never a typed empty value, at any depth.
func noEmpty(g orb.Geometry) error {
	switch v := g.(type) {
	case nil:
		return fmt.Errorf("nil member")
	case orb.MultiPoint:
		if len(v) == 0 {
			return fmt.Errorf("empty MultiPoint")
		}
	case orb.LineString:
		if len(v) == 0 {
			return fmt.Errorf("empty LineString")
		}
	case orb.MultiLineString:
		if len(v) == 0 {
			return fmt.Errorf("empty MultiLineString")
		}
		for _, l := range v {
			if len(l) == 0 {
				return fmt.Errorf("empty line in MultiLineString")
			}
		}
	case orb.Ring:
		if len(v) == 0 {
			return fmt.Errorf("empty Ring")
		}
	case orb.Polygon:
		if len(v) == 0 {
			return fmt.Errorf("empty Polygon")
		}
		for _, r := range v {
			if len(r) == 0 {
				return fmt.Errorf("empty ring in Polygon")
			}
		}
	case orb.MultiPolygon:
		if len(v) == 0 {
			return fmt.Errorf("empty MultiPolygon")
		}
		for _, p := range v {
			if err := noEmpty(p); err != nil {
				return err
			}
		}
	case orb.Collection:
		if len(v) == 0 {
			return fmt.Errorf("empty Collection")
		}
		for _, m := range v {
			if err := noEmpty(m); err != nil {
				return err
			}
		}
	}
	return nil
}

// vertexCheck: no vertex of the result outside the box (exact for 0-/1-d
// results and bounds, within tol for rings).
func vertexCheck(box orb.Bound, g orb.Geometry, tl tols) error {
	bad := func(p orb.Point, ringVertex bool) bool {
		if ringVertex {
			return !finite(p) || !tl.inBox(box, p)
		}
		return !finite(p) || !inBox(box, p)
	}
	switch v := g.(type) {
	case orb.Point:
		if bad(v, false) {
			return fmt.Errorf("point %v outside the box", v)
		}
	case orb.MultiPoint:
		for _, p := range v {
			if bad(p, false) {
				return fmt.Errorf("point %v outside the box", p)
			}
		}
	case orb.LineString:
		for _, p := range v {
			if bad(p, false) {
				return fmt.Errorf("line vertex %v outside the box", p)
			}
		}
	case orb.MultiLineString:
		for _, l := range v {
			if err := vertexCheck(box, l, tl); err != nil {
				return err
			}
		}
	case orb.Ring:
		for _, p := range v {
			if bad(p, true) {
				return fmt.Errorf("ring vertex %v outside the box", p)
			}
		}
	case orb.Polygon:
		for _, r := range v {
			if err := vertexCheck(box, r, tl); err != nil {
				return err
			}
		}
	case orb.MultiPolygon:
		for _, p := range v {
			if err := vertexCheck(box, p, tl); err != nil {
				return err
			}
		}
	case orb.Collection:
		for _, m := range v {
			if err := vertexCheck(box, m, tl); err != nil {
				return err
			}
		}
	case orb.Bound:
		if bad(v.Min, false) || bad(v.Max, false) {
			return fmt.Errorf("bound %v outside the box", v)
		}
	}
	return nil
}

// parity: even-odd membership of q in the 2-d content of g (all rings of all
// polygons, nested in collections; a Bound is its rectangle).
func parity(g orb.Geometry, q orb.Point) bool {
	in := false
	switch v := g.(type) {
	case orb.Ring:
		in = evenOdd(v, q)
	case orb.Polygon:
		// outer ring minus holes: a point outside the outer ring is outside whatever the
		// other rings say (clip.Polygon drops a polygon whose outer ring clips to nothing)
		if len(v) == 0 || !evenOdd(v[0], q) {
			return false
		}
		in = true
		for _, r := range v[1:] {
			if evenOdd(r, q) {
				in = !in
			}
		}
	case orb.MultiPolygon:
		for _, p := range v {
			if parity(p, q) {
				return true
			}
		}
	case orb.Collection:
		for _, m := range v {
			if parity(m, q) {
				return true
			}
		}
	case orb.Bound:
		in = q[0] > v.Min[0] && q[0] < v.Max[0] && q[1] > v.Min[1] && q[1] < v.Max[1]
	}
	return in
}

// allClosed: every ring in g is a closed vertex list (the region clauses are
// only stated for those; clip does not close an open list implicitly).
func allClosed(g orb.Geometry) bool {
	switch v := g.(type) {
	case orb.Ring:
		return len(v) == 0 || closed(v)
	case orb.Polygon:
		for _, r := range v {
			if len(r) > 0 && !closed(r) {
				return false
			}
		}
	case orb.MultiPolygon:
		for _, p := range v {
			if !allClosed(p) {
				return false
			}
		}
	case orb.Collection:
		for _, m := range v {
			if !allClosed(m) {
				return false
			}
		}
	}
	return true
}

func distToRings(g orb.Geometry, q orb.Point) float64 {
	d := math.Inf(1)
	switch v := g.(type) {
	case orb.Ring:
		d = ringDist(v, q)
	case orb.Polygon:
		for _, r := range v {
			d = math.Min(d, ringDist(r, q))
		}
	case orb.MultiPolygon:
		for _, p := range v {
			d = math.Min(d, distToRings(p, q))
		}
	case orb.Collection:
		for _, m := range v {
			d = math.Min(d, distToRings(m, q))
		}
	case orb.Bound:
		d = ringDist(orb.Ring{v.Min, {v.Max[0], v.Min[1]}, v.Max, {v.Min[0], v.Max[1]}}, q)
	}
	return d
}

// somethingRemains decides, independently of the clip functions, whether part
// of g certainly lies in the box (sure) or certainly nothing does (none); both
// false means it depends on measure-zero contact or cannot be told from the
// query points.
func somethingRemains(box orb.Bound, g orb.Geometry, qs []orb.Point, tl tols) (sure, none bool) {
	tol := tl.lineSmall
	margin := tl.margin
	none = true
	var walk func(g orb.Geometry)
	walk = func(g orb.Geometry) {
		switch v := g.(type) {
		case orb.Point:
			if inBox(box, v) {
				sure, none = true, false
			}
		case orb.MultiPoint:
			for _, p := range v {
				walk(p)
			}
		case orb.LineString:
			runs := exact.ClipLine(box, v, false).Runs
			for _, run := range runs {
				if !run.Zero && run.Length > 2*tol {
					sure = true
				}
			}
			if len(runs) > 0 {
				none = false
			} else if none {
				// nothing for sure only if the line stays clear of the box by more than rounding
				pad := orb.Bound{Min: orb.Point{box.Min[0] - 2*tol, box.Min[1] - 2*tol}, Max: orb.Point{box.Max[0] + 2*tol, box.Max[1] + 2*tol}}
				if len(exact.ClipLine(pad, v, false).Runs) > 0 {
					none = false
				}
			}
		case orb.MultiLineString:
			for _, l := range v {
				walk(l)
			}
		case orb.Ring, orb.Polygon, orb.MultiPolygon:
			none = false // a region can reach into the box between the query points
			closedAll := allClosed(v)
			for _, q := range qs {
				if sure || !closedAll {
					break
				}
				if deepInBox(box, q, margin) && distToRings(v, q) > margin && parity(v, q) {
					sure = true
				}
			}
		case orb.Collection:
			for _, m := range v {
				walk(m)
			}
		case orb.Bound:
			none = false
			if v.Min[0] <= box.Max[0] && v.Max[0] >= box.Min[0] && v.Min[1] <= box.Max[1] && v.Max[1] >= box.Min[1] {
				sure = true
			}
		}
	}
	walk(g)
	return sure, none
}

func checkGeneric(box orb.Bound, g orb.Geometry, qs []orb.Point, tl tols) error {
	want := expect(box, g)
	got := clip.Geometry(box, gen.DeepCopy(g))
	if ok, why := gen.SameBits(got, want); !ok {
		return fmt.Errorf("clip.Geometry(%s) = %s, the per-kind rules give %s: %s", gen.KindOf(g), gen.Canon(got), gen.Canon(want), why)
	}
	if got != nil {
		if err := noEmpty(got); err != nil {
			return fmt.Errorf("clip.Geometry(%s) result contains an %v: %s", gen.KindOf(g), err, gen.Canon(got))
		}
		if err := vertexCheck(box, got, tl); err != nil {
			return fmt.Errorf("clip.Geometry(%s): %v; result %s", gen.KindOf(g), err, gen.Canon(got))
		}
	}
	if err := independent(box, g, got); err != nil {
		return err
	}
	if err := linesAgree(box, g, tl); err != nil {
		return err
	}
	if err := aliasedMembers(box, g); err != nil {
		return err
	}
	sure, none := somethingRemains(box, g, qs, tl)
	if got == nil && sure {
		return fmt.Errorf("clip.Geometry(%s) = nil although part of the input lies in the box %v: %s", gen.KindOf(g), box, gen.Canon(g))
	}
	if got != nil && none {
		return fmt.Errorf("clip.Geometry(%s) = %s although nothing of the input lies in the box %v", gen.KindOf(g), gen.Canon(got), box)
	}
	// region of the whole result: membership preserved for 2-d content
	margin := tl.margin
	for _, q := range qs {
		if !allClosed(g) {
			break
		}
		if !deepInBox(box, q, margin) || distToRings(g, q) <= margin || (got != nil && distToRings(got, q) <= margin/2) {
			continue
		}
		if w, h := parity(g, q), got != nil && parity(got, q); w != h {
			return fmt.Errorf("point %v inside the box: in clip.Geometry result = %v, in the input = %v; input %s result %s", q, h, w, gen.Canon(g), gen.Canon(got))
		}
	}

	// typed wrappers against the same rules
	switch v := g.(type) {
	case orb.MultiPoint:
		in := append(orb.MultiPoint(nil), v...)
		if r := clip.MultiPoint(box, in); !samePts(r, expectMultiPoint(box, v)) {
			return fmt.Errorf("clip.MultiPoint = %v, want the points inside the box %v", r, expectMultiPoint(box, v))
		}
		if !samePts(in, v) { // documented to return a new set; nothing says the argument is scratch space
			return fmt.Errorf("clip.MultiPoint modified its input: %v, was %v", in, v)
		}
	case orb.Polygon:
		r, w := clip.Polygon(box, gen.DeepCopy(v).(orb.Polygon)), expectPolygon(box, v)
		if ok, why := gen.SameBits(r, w); !ok || (r == nil) != (w == nil) {
			return fmt.Errorf("clip.Polygon = %s, the rules give %s: %s", gen.Canon(r), gen.Canon(w), why)
		}
	case orb.MultiPolygon:
		r, w := clip.MultiPolygon(box, gen.DeepCopy(v).(orb.MultiPolygon)), expectMultiPolygon(box, v)
		if ok, why := gen.SameBits(r, w); !ok {
			return fmt.Errorf("clip.MultiPolygon = %s, the rules give %s: %s", gen.Canon(r), gen.Canon(w), why)
		}
	case orb.Collection:
		r, w := clip.Collection(box, gen.DeepCopy(v).(orb.Collection)), expectCollection(box, v)
		if ok, why := gen.SameBits(r, w); !ok {
			return fmt.Errorf("clip.Collection = %s, the rules give %s: %s", gen.Canon(r), gen.Canon(w), why)
		}
	case orb.Bound:
		r := clip.Bound(box, v)
		if w, ok := want.(orb.Bound); ok && (!bitEq(r.Min, w.Min) || !bitEq(r.Max, w.Max)) {
			return fmt.Errorf("clip.Bound = %v, want %v", r, w)
		}
		if want == nil && !(r.Min[0] > r.Max[0] || r.Min[1] > r.Max[1]) {
			return fmt.Errorf("clip.Bound of disjoint bounds = %v is not empty", r)
		}
	}

	// mvt.Layer.Clip: every feature clipped by the same rules, features that
	// clip to nothing removed, order kept
	members := []orb.Geometry{g}
	if c, ok := g.(orb.Collection); ok && len(c) > 0 {
		members = c
	}
	layer := &mvt.Layer{Name: "l", Version: 2, Extent: 4096}
	var wantF []orb.Geometry
	for i, m := range members {
		f := geojson.NewFeature(gen.DeepCopy(m))
		f.ID = i
		layer.Features = append(layer.Features, f)
		if w := expect(box, m); w != nil {
			wantF = append(wantF, w)
		}
	}
	layer.Clip(box)
	if len(layer.Features) != len(wantF) {
		return fmt.Errorf("mvt Layer.Clip kept %d features, want %d", len(layer.Features), len(wantF))
	}
	for i, f := range layer.Features {
		if ok, why := gen.SameBits(f.Geometry, wantF[i]); !ok {
			return fmt.Errorf("mvt Layer.Clip feature %d = %s, want %s: %s", i, gen.Canon(f.Geometry), gen.Canon(wantF[i]), why)
		}
	}
	return nil
}

// aliasedMembers: lines (or point lists) of one input that share memory with each other - the
// same slice twice, windows of one backing array whose capacities overlap - are still separate
// values: the result must be what it is for independent copies. (Rings are left out: ring
// clipping is documented to use its input as scratch space, so rings sharing memory may
// legitimately disturb each other.)
func aliasedMembers(box orb.Bound, g orb.Geometry) error {
	var lines []orb.LineString
	switch v := g.(type) {
	case orb.MultiLineString:
		lines = v
	case orb.Collection:
		for _, m := range v {
			if l, ok := m.(orb.LineString); ok {
				lines = append(lines, l)
			}
		}
	}
	if len(lines) == 0 || len(lines) > 64 {
		return nil
	}
	build := func(alias bool) (orb.MultiLineString, orb.Collection) {
		var backing []orb.Point
		for _, l := range lines {
			backing = append(backing, l...)
		}
		m := orb.MultiLineString{}
		off := 0
		for _, l := range lines {
			if alias {
				m = append(m, orb.LineString(backing[off:off+len(l)])) // capacity runs on into the next lines
			} else {
				m = append(m, append(orb.LineString{}, l...))
			}
			off += len(l)
		}
		// the first line once more: the same slice when aliasing, a copy otherwise
		if alias {
			m = append(m, m[0])
		} else {
			m = append(m, append(orb.LineString{}, lines[0]...))
		}
		c := orb.Collection{}
		for _, l := range m {
			c = append(c, l)
		}
		return m, c
	}
	am, ac := build(true)
	im, ic := build(false)
	if a, b := clip.MultiLineString(box, am), clip.MultiLineString(box, im); !sameGeom(a, b) {
		return fmt.Errorf("clip.MultiLineString of lines sharing one backing array gives %s, independent copies give %s", gen.Canon(a), gen.Canon(b))
	}
	am, ac = build(true)
	if a, b := clip.Geometry(box, am), clip.Geometry(box, im); !sameGeom(a, b) {
		return fmt.Errorf("clip.Geometry of a MultiLineString whose lines share memory gives %s, independent copies give %s", gen.Canon(a), gen.Canon(b))
	}
	if a, b := clip.Geometry(box, ac), clip.Geometry(box, ic); !sameGeom(a, b) {
		return fmt.Errorf("clip.Geometry of a Collection whose lines share memory gives %s, independent copies give %s", gen.Canon(a), gen.Canon(b))
	}
	return nil
}

func sameGeom(a, b orb.Geometry) bool {
	ok, _ := gen.SameBits(a, b)
	return ok && (a == nil) == (b == nil)
}

// linesAgree: clip.LineString is used as a primitive of the expectation, so it
// is judged here too, coarsely (C07 judges it finely): for every line of g the
// clipped pieces lie in the box and their total length is the exact length of
// the line inside the box within 1e-9 * max|coordinate| per output vertex.
func linesAgree(box orb.Bound, g orb.Geometry, tl tols) error {
	var err error
	var walk func(g orb.Geometry)
	one := func(ls orb.LineString) {
		if err != nil {
			return
		}
		pieces := clip.LineString(box, append(orb.LineString(nil), ls...))
		want, got, nv := 0.0, 0.0, 1
		for _, r := range exact.ClipLine(box, ls, false).Runs {
			want += r.Length
		}
		for _, p := range pieces {
			nv += len(p)
			for i, v := range p {
				if !inBox(box, v) {
					err = fmt.Errorf("clip.LineString piece vertex %v outside the box %v", v, box)
					return
				}
				if i > 0 {
					got += math.Hypot(v[0]-p[i-1][0], v[1]-p[i-1][1])
				}
			}
		}
		if math.Abs(got-want) > tl.lineSmall*float64(nv) {
			err = fmt.Errorf("clip.LineString(%v, %v) has total length %v, the exact length inside is %v", box, ls, got, want)
		}
	}
	walk = func(g orb.Geometry) {
		switch v := g.(type) {
		case orb.LineString:
			one(v)
		case orb.MultiLineString:
			for _, l := range v {
				one(l)
			}
		case orb.Collection:
			for _, m := range v {
				walk(m)
			}
		}
	}
	walk(g)
	return err
}

// ---------------------------------------------------------------- results are values of their own

// leaves lists the vertex slices a geometry is made of.
func leaves(g orb.Geometry) [][]orb.Point {
	var out [][]orb.Point
	switch v := g.(type) {
	case orb.MultiPoint:
		out = append(out, v)
	case orb.LineString:
		out = append(out, v)
	case orb.Ring:
		out = append(out, v)
	case orb.MultiLineString:
		for _, l := range v {
			out = append(out, l)
		}
	case orb.Polygon:
		for _, r := range v {
			out = append(out, r)
		}
	case orb.MultiPolygon:
		for _, p := range v {
			out = append(out, leaves(p)...)
		}
	case orb.Collection:
		for _, m := range v {
			out = append(out, leaves(m)...)
		}
	}
	return out
}

// scribble overwrites every vertex of s and everything an append to s could
// reach (its spare capacity).
func scribble(s []orb.Point) {
	s = s[:cap(s)]
	for i := range s {
		s[i] = orb.Point{-7.5e77 - float64(i), 7.5e77 + float64(i)}
	}
}

// independent: the same call on a fresh copy of the input gives the same result, and after the
// caller has overwritten every part of that second result (and the spare capacity behind it) a
// third call still gives the same result. Whether parts of one result or results of different
// calls share memory is layout, which neither the property nor the documentation speak about:
// counted as a layout note, never failed. (The INPUT may be used as scratch space; documented.)
func independent(box orb.Bound, g orb.Geometry, first orb.Geometry) error {
	snap := gen.DeepCopy(first)
	second := clip.Geometry(box, gen.DeepCopy(g))
	if ok, why := gen.SameBits(second, snap); !ok || (second == nil) != (snap == nil) {
		return fmt.Errorf("clip.Geometry on a fresh copy of the input gives %s, before it gave %s: %s", gen.Canon(second), gen.Canon(snap), why)
	}
	if ok, why := gen.SameBits(first, snap); !ok { // no caller action in between: a returned value changed under the caller's hands
		return fmt.Errorf("a later call of clip.Geometry changed the result returned earlier: %s", why)
	}
	ls, ss := leaves(second), leaves(snap)
	for parity := 0; parity < 2; parity++ { // even parts first, then odd: linear in the output
		for k := parity; k < len(ls); k += 2 {
			scribble(ls[k])
		}
		for j := 1 - parity; parity == 0 && j < len(ls); j += 2 {
			if !samePts(ls[j], ss[j]) {
				stats.Class("layout-note: parts of one result share memory")
				break
			}
		}
	}
	if ok, _ := gen.SameBits(first, snap); !ok {
		stats.Class("layout-note: results of two calls share memory")
	}
	third := clip.Geometry(box, gen.DeepCopy(g))
	if ok, why := gen.SameBits(third, snap); !ok || (third == nil) != (snap == nil) {
		return fmt.Errorf("after overwriting an earlier result clip.Geometry gives %s, before it gave %s: %s", gen.Canon(third), gen.Canon(snap), why)
	}
	return nil
}

// outputs collects what every clip entry point returns for the case (for the
// concurrent test). It touches no package state of this check.
func outputs(c Case) []orb.Geometry {
	box := c.Box.Bound()
	g := c.G.V
	out := []orb.Geometry{clip.Geometry(box, gen.DeepCopy(g))}
	var walk func(g orb.Geometry)
	walk = func(g orb.Geometry) {
		switch v := g.(type) {
		case orb.Ring:
			out = append(out, clip.Ring(box, copyRing(v)))
		case orb.Polygon:
			out = append(out, clip.Polygon(box, gen.DeepCopy(v).(orb.Polygon)))
			for _, r := range v {
				walk(r)
			}
		case orb.MultiPolygon:
			out = append(out, clip.MultiPolygon(box, gen.DeepCopy(v).(orb.MultiPolygon)))
			for _, p := range v {
				walk(p)
			}
		case orb.Collection:
			out = append(out, clip.Collection(box, gen.DeepCopy(v).(orb.Collection)))
			for _, m := range v {
				walk(m)
			}
		case orb.LineString:
			out = append(out, clip.LineString(box, append(orb.LineString(nil), v...)))
		case orb.MultiLineString:
			out = append(out, clip.MultiLineString(box, gen.DeepCopy(v).(orb.MultiLineString)))
		case orb.MultiPoint:
			out = append(out, clip.MultiPoint(box, append(orb.MultiPoint(nil), v...)))
		}
	}
	walk(g)
	return out
}

func sameOutputs(a, b []orb.Geometry) error {
	if len(a) != len(b) {
		return fmt.Errorf("%d results, sequentially %d", len(a), len(b))
	}
	for i := range a {
		if ok, why := gen.SameBits(a[i], b[i]); !ok || (a[i] == nil) != (b[i] == nil) {
			return fmt.Errorf("result %d differs from the one computed alone: %s vs %s (%s)", i, gen.Canon(a[i]), gen.Canon(b[i]), why)
		}
	}
	return nil
}

// ---------------------------------------------------------------- the case

// lastCut reports (for statistics only) whether some ring of the last checked case was cut.
var lastCut, lastNil bool

// knownUnderflowKey: known finding of C08 - clip's intersect() multiplies a coordinate difference of
// the segment by the distance from a segment end to the box edge BEFORE dividing; when that product
// is non-zero and below 2^-1000 it underflows to a subnormal (relative error up to 100 %) and the
// intersection point is garbage (a ring vertex far outside the box).
const knownUnderflowKey = "clip-intersect-product-underflow"

// underflowFamily is the input family of that finding, computed on the coordinates the library
// sees: for some segment of a ring or line of g (closing segment included) there are an
// x-quantity qx and a y-quantity qy, both non-zero, with qx*qy < 2^-1000, where the x-quantities
// of a segment a->b are |b0-a0|, |a0-e|, |b0-e| for both box edges e of that axis and the box
// width (the last three stand for the intermediate vertices Sutherland-Hodgman and
// Cohen-Sutherland create on the edge lines), and the y-quantities likewise.
func underflowFamily(box orb.Bound, g orb.Geometry) bool {
	const lim = 0x1p-1000
	seg := func(a, b orb.Point) bool {
		var q [2][]float64
		for d := 0; d < 2; d++ {
			q[d] = []float64{math.Abs(b[d] - a[d]), math.Abs(a[d] - box.Min[d]), math.Abs(a[d] - box.Max[d]),
				math.Abs(b[d] - box.Min[d]), math.Abs(b[d] - box.Max[d]), box.Max[d] - box.Min[d]}
		}
		for _, x := range q[0] {
			if x == 0 {
				continue
			}
			for _, y := range q[1] {
				if y != 0 && x*y < lim {
					return true
				}
			}
		}
		return false
	}
	path := func(ps []orb.Point, closed bool) bool {
		for i := 0; i+1 < len(ps); i++ {
			if seg(ps[i], ps[i+1]) {
				return true
			}
		}
		return closed && len(ps) > 1 && seg(ps[len(ps)-1], ps[0])
	}
	switch v := g.(type) {
	case orb.LineString:
		return path(v, false)
	case orb.Ring:
		return path(v, true)
	case orb.MultiLineString:
		for _, l := range v {
			if path(l, false) {
				return true
			}
		}
	case orb.Polygon:
		for _, r := range v {
			if path(r, true) {
				return true
			}
		}
	case orb.MultiPolygon:
		for _, p := range v {
			if underflowFamily(box, p) {
				return true
			}
		}
	case orb.Collection:
		for _, m := range v {
			if underflowFamily(box, m) {
				return true
			}
		}
	}
	return false
}

// checkCase is checkCaseRaw with the cases of a LISTED known finding excluded and counted.
func checkCase(c Case) error {
	if _, listed := kf.Get("C08", knownUnderflowKey); listed && underflowFamily(c.Box.Bound(), c.G.V) {
		stats.Excluded(knownUnderflowKey)
		lastCut, lastNil = false, false
		return nil
	}
	return checkCaseRaw(c)
}

func checkCaseRaw(c Case) error {
	box := c.Box.Bound()
	g := c.G.V
	tl := tolsOf(box, g)
	qs := queries(box, c.QSeed, nQueries)
	lastCut, lastNil = false, false
	var err error
	var walk func(g orb.Geometry)
	ring := func(r orb.Ring) {
		if err != nil {
			return
		}
		var info ringInfo
		info, err = checkRing(box, r, qs, float64(c.SplitX), float64(c.SplitY), tl)
		if info.cut {
			lastCut = true
		}
		if info.empty {
			lastNil = true
		}
	}
	walk = func(g orb.Geometry) {
		switch v := g.(type) {
		case orb.Ring:
			ring(v)
		case orb.Polygon:
			for _, r := range v {
				ring(r)
			}
		case orb.MultiPolygon:
			for _, p := range v {
				walk(p)
			}
		case orb.Collection:
			for _, m := range v {
				walk(m)
			}
		}
	}
	walk(g)
	if err != nil {
		return err
	}
	return checkGeneric(box, g, qs, tl)
}
