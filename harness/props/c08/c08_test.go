// Package c08 decides property C08 (ring/polygon clipping keeps exactly the
// region inside the box) by generated search: point-membership and signed-area
// oracles for rings, per-kind composition rules for the generic entry points.
package c08

import (
	"encoding/json"
	"fmt"
	"math"
	"os"
	"path/filepath"
	"strings"
	"sort"
	"testing"
	"time"

	"github.com/paulmach/orb"
	"pgregory.net/rapid"

	"verifharness/internal/gen"
	"verifharness/internal/kf"
	"verifharness/internal/stats"
)

func TestMain(m *testing.M) {
	// the deepest rung of the nesting ladder costs about 40 s of CPU on the unchanged tree (quadratic
	// pre-check in clip.Geometry, see large_test.go); everything else takes milliseconds
	stats.SetLimits(180*time.Second, 3<<30)
	stats.Main(m, "C08")
}

func assumptions() {
	stats.Assume("coordinates are finite; boxes have positive width and height; region clauses are judged for closed vertex lists only (first vertex == last vertex)")
	stats.Assume("tolerances have no absolute unit: output ring vertices within 64 eps * largest |box coordinate| of the box per axis; membership asked only at points farther than 1e-6 * larger box side + 1000 eps * max|coordinate| from the input ring and the box sides and half that from the output ring; area additivity (shoelace relative to the box corner) within 1e-12 * sum of |terms| + (output vertices) * (largest single-intersection bound 8 eps (|coordinate| + |edge extent|) of the ring's edges) * (box width + height)")
	stats.Assume("'disjoint from the box' is read as bound-disjoint by more than the largest two-intersection rounding bound of the ring's edges; a ring that meets the box only in a set of measure zero may yield nil or a zero-area ring (DESIGN C08 'not demanded')")
	stats.Assume("clip.Geometry on lines is compared with clip.LineString (judged by C07); nil is demanded when the exact line model finds nothing inside, non-nil when it finds a piece longer than 2e-9*max|coordinate|")
}

// ---------------------------------------------------------------- generators

// axis is an affine map of one coordinate axis; the lattice pictures are drawn
// in lattice units and mapped, so that equal lattice values stay equal floats.
type axis struct{ s, o float64 }

func (a axis) at(v float64) float64 { return v*a.s + a.o }

type frame struct{ x, y axis }

func (f frame) pt(x, y float64) orb.Point { return orb.Point{f.x.at(x), f.y.at(y)} }

func drawFrame(t *rapid.T) (frame, string) {
	if rapid.IntRange(0, 3).Draw(t, "affine") != 0 {
		return frame{axis{1, 0}, axis{1, 0}}, "plain"
	}
	sc := []float64{0.1, 1.0 / 3, 1e-3, 7.3, 1e5}
	of := []float64{0, 0.1, -1e3, 12345.678}
	return frame{
		axis{rapid.SampledFrom(sc).Draw(t, "sx"), rapid.SampledFrom(of).Draw(t, "ox")},
		axis{rapid.SampledFrom(sc).Draw(t, "sy"), rapid.SampledFrom(of).Draw(t, "oy")},
	}, "affine"
}

func closeRing(ps []orb.Point) orb.Ring { return orb.Ring(append(ps, ps[0])) }

// finishRing rotates the start vertex and reverses the direction at random.
func finishRing(t *rapid.T, ps []orb.Point) orb.Ring {
	n := len(ps)
	k := rapid.IntRange(0, n-1).Draw(t, "rot")
	out := make([]orb.Point, 0, n+1)
	for i := 0; i < n; i++ {
		out = append(out, ps[(i+k)%n])
	}
	if rapid.Bool().Draw(t, "rev") {
		for i, j := 0, len(out)-1; i < j; i, j = i+1, j-1 {
			out[i], out[j] = out[j], out[i]
		}
	}
	return closeRing(out)
}

// half-integer lattice coordinates in [0,6] (in lattice units)
func latticeCoord(t *rapid.T, l string) float64 {
	if rapid.Bool().Draw(t, l+"half") {
		return float64(rapid.IntRange(0, 12).Draw(t, l)) / 2
	}
	return float64(rapid.IntRange(0, 6).Draw(t, l))
}

func sortByAngle(ps [][2]float64, cx, cy float64) {
	sort.SliceStable(ps, func(i, j int) bool {
		return math.Atan2(ps[i][1]-cy, ps[i][0]-cx) < math.Atan2(ps[j][1]-cy, ps[j][0]-cx)
	})
}

// drawRingCase draws box, ring, splits; the second result names the class.
func drawRingCase(t *rapid.T) (Case, string) {
	var c Case
	c.QSeed = rapid.Uint64().Draw(t, "qseed")
	class := rapid.IntRange(0, 13).Draw(t, "class")
	if class <= 4 {
		// ---- lattice pictures (vertices on, edges along the box boundary)
		f, fname := drawFrame(t)
		var raw [][2]float64
		name := ""
		switch class {
		case 0, 1:
			name = "lattice:arbitrary closed list"
			n := rapid.IntRange(3, 12).Draw(t, "n")
			for i := 0; i < n; i++ {
				raw = append(raw, [2]float64{latticeCoord(t, "x"), latticeCoord(t, "y")})
				if i > 0 && rapid.IntRange(0, 9).Draw(t, "rep") == 0 {
					raw[i] = raw[i-1]
				}
			}
		case 2:
			name = "lattice:star-shaped"
			n := rapid.IntRange(3, 10).Draw(t, "n")
			seen := map[[2]float64]bool{}
			for len(raw) < n {
				p := [2]float64{latticeCoord(t, "x"), latticeCoord(t, "y")}
				if !seen[p] {
					seen[p] = true
					raw = append(raw, p)
				}
			}
			cx := float64(rapid.IntRange(1, 5).Draw(t, "cx")) + 0.37
			cy := float64(rapid.IntRange(1, 5).Draw(t, "cy")) + 0.41
			sortByAngle(raw, cx, cy)
		case 3:
			name = "lattice:rectangle"
			x0 := rapid.IntRange(0, 11).Draw(t, "rx0")
			x1 := rapid.IntRange(x0+1, 12).Draw(t, "rx1")
			y0 := rapid.IntRange(0, 11).Draw(t, "ry0")
			y1 := rapid.IntRange(y0+1, 12).Draw(t, "ry1")
			a, b, cc, d := float64(x0)/2, float64(x1)/2, float64(y0)/2, float64(y1)/2
			raw = [][2]float64{{a, cc}, {b, cc}, {b, d}, {a, d}}
		default:
			name = "degenerate:closed list without area"
			p := [2]float64{latticeCoord(t, "x"), latticeCoord(t, "y")}
			q := [2]float64{latticeCoord(t, "x2"), latticeCoord(t, "y2")}
			switch rapid.IntRange(0, 3).Draw(t, "deg") {
			case 0:
				raw = [][2]float64{p}
			case 1:
				raw = [][2]float64{p, q}
			case 2:
				raw = [][2]float64{p, p, p}
			default:
				raw = [][2]float64{p, q, p, q}
			}
		}
		// the box: lattice corners, or fitted around the ring (bound inside the closed box), or far away
		var bx0, bx1, by0, by1 float64
		switch rapid.IntRange(0, 9).Draw(t, "boxkind") {
		case 0: // fitted: ring bound padded by 0 or 1/2 per side
			lo := [2]float64{math.Inf(1), math.Inf(1)}
			hi := [2]float64{math.Inf(-1), math.Inf(-1)}
			for _, p := range raw {
				for d := 0; d < 2; d++ {
					lo[d], hi[d] = math.Min(lo[d], p[d]), math.Max(hi[d], p[d])
				}
			}
			pad := func(l string) float64 { return float64(rapid.IntRange(0, 1).Draw(t, l)) / 2 }
			bx0, bx1, by0, by1 = lo[0]-pad("p0"), hi[0]+pad("p1"), lo[1]-pad("p2"), hi[1]+pad("p3")
			if bx1 <= bx0 {
				bx1 = bx0 + 0.5
			}
			if by1 <= by0 {
				by1 = by0 + 0.5
			}
			name += " / box fitted"
		case 1: // disjoint: beyond the lattice
			bx0, bx1, by0, by1 = 6.5, 8, float64(rapid.IntRange(0, 4).Draw(t, "dy")), 6
			if rapid.Bool().Draw(t, "touch") {
				bx0 = 6 // may touch the ring's bound
			}
			name += " / box beside"
		default:
			two := func(l string) (float64, float64) { // two distinct half-lattice values in [0.5, 5.5], sorted
				a := rapid.IntRange(1, 11).Draw(t, l+"0")
				b := rapid.IntRange(1, 10).Draw(t, l+"1")
				if b >= a {
					b++
				}
				if a > b {
					a, b = b, a
				}
				if b-a < 3 && rapid.IntRange(0, 3).Draw(t, l+"widen") != 0 { // mostly boxes at least 1.5 wide
					a, b = max(1, a-2), min(11, b+2)
				}
				return float64(a) / 2, float64(b) / 2
			}
			bx0, bx1 = two("bx")
			by0, by1 = two("by")
		}
		// splits on the half-lattice strictly inside when there is room, else the middle
		split := func(lo, hi float64, l string) float64 {
			k := int(math.Round((hi - lo) * 2))
			if k >= 2 {
				return lo + float64(rapid.IntRange(1, k-1).Draw(t, l))/2
			}
			return (lo + hi) / 2
		}
		sx, sy := split(bx0, bx1, "sx"), split(by0, by1, "sy")
		box := orb.Bound{Min: f.pt(bx0, by0), Max: f.pt(bx1, by1)}
		ps := make([]orb.Point, len(raw))
		for i, p := range raw {
			ps[i] = f.pt(p[0], p[1])
		}
		c.Box = gen.FromBound(box)
		c.G = gen.G{V: finishRing(t, ps)}
		c.SplitX, c.SplitY = gen.F(f.x.at(sx)), gen.F(f.y.at(sy))
		if fname == "plain" {
			c = signedZeros(t, c)
		}
		return rescale(t, c), name + " / " + fname
	}
	if class >= 12 {
		return rescale(t, drawFarVertices(t, c)), "lattice:small box, ring vertices 2^21..2^40 box sizes away"
	}
	if class >= 10 {
		return rescale(t, drawFarRing(t, c)), "float:small box far from the origin, ring edges crossing at shallow angles"
	}

	// ---- general position
	s := rapid.SampledFrom([]float64{1, 1, 1e-3, 30, 1e5}).Draw(t, "scale")
	fr := func(lo, hi float64, l string) float64 { return rapid.Float64Range(lo, hi).Draw(t, l) * s }
	box := orb.Bound{Min: orb.Point{fr(0, 3, "bx0"), fr(0, 3, "by0")}, Max: orb.Point{fr(3.01, 6, "bx1"), fr(3.01, 6, "by1")}}
	n := rapid.IntRange(3, 12).Draw(t, "n")
	var ps []orb.Point
	name := ""
	switch class {
	case 5, 6:
		name = "float:arbitrary closed list"
		for i := 0; i < n; i++ {
			ps = append(ps, orb.Point{fr(-2, 8, "x"), fr(-2, 8, "y")})
		}
	case 7:
		name = "float:convex"
		cx, cy := fr(-1, 7, "cx"), fr(-1, 7, "cy")
		rx, ry := fr(0.3, 5, "rx"), fr(0.3, 5, "ry")
		var angs []float64
		for i := 0; i < n; i++ {
			angs = append(angs, rapid.Float64Range(0, 2*math.Pi).Draw(t, "ang"))
		}
		sort.Float64s(angs)
		for _, a := range angs {
			ps = append(ps, orb.Point{cx + rx*math.Cos(a), cy + ry*math.Sin(a)})
		}
	case 8:
		name = "float:star-shaped"
		cx, cy := fr(-1, 7, "cx"), fr(-1, 7, "cy")
		for i := 0; i < n; i++ {
			a := 2 * math.Pi * (float64(i) + rapid.Float64Range(0, 0.8).Draw(t, "jit")) / float64(n)
			r := fr(0.3, 5, "rad")
			ps = append(ps, orb.Point{cx + r*math.Cos(a), cy + r*math.Sin(a)})
		}
	default:
		name = "float:small ring near the box (inside / outside / across one side)"
		cx := rapid.Float64Range(box.Min[0]-0.7*s, box.Max[0]+0.7*s).Draw(t, "cx")
		cy := rapid.Float64Range(box.Min[1]-0.7*s, box.Max[1]+0.7*s).Draw(t, "cy")
		for i := 0; i < n; i++ {
			ps = append(ps, orb.Point{cx + fr(-0.6, 0.6, "dx"), cy + fr(-0.6, 0.6, "dy")})
		}
	}
	c.Box = gen.FromBound(box)
	c.G = gen.G{V: finishRing(t, ps)}
	c.SplitX = gen.F(box.Min[0] + rapid.Float64Range(0.1, 0.9).Draw(t, "fx")*(box.Max[0]-box.Min[0]))
	c.SplitY = gen.F(box.Min[1] + rapid.Float64Range(0.1, 0.9).Draw(t, "fy")*(box.Max[1]-box.Min[1]))
	return rescale(t, c), name
}

// drawFarRing: a box of size 1..100 at offsets up to 2e7 (projected metres) or
// 1e9, and a ring whose vertices lie next to the box's edge lines or follow
// each other at slopes 1e-4..1e-1 against an axis.
func drawFarRing(t *rapid.T, c Case) Case {
	off := func(l string) float64 {
		switch rapid.IntRange(0, 2).Draw(t, l+"k") {
		case 0:
			return rapid.Float64Range(-2e7, 2e7).Draw(t, l)
		case 1:
			return rapid.Float64Range(1e8, 1e9).Draw(t, l) * float64(2*rapid.IntRange(0, 1).Draw(t, l+"s")-1)
		}
		return rapid.Float64Range(-2e6, 2e6).Draw(t, l)
	}
	w, h := rapid.Float64Range(1, 100).Draw(t, "w"), rapid.Float64Range(1, 100).Draw(t, "h")
	box := orb.Bound{Min: orb.Point{off("ox"), off("oy")}}
	box.Max = orb.Point{box.Min[0] + w, box.Min[1] + h}
	size := [2]float64{w, h}
	n := rapid.IntRange(3, 10).Draw(t, "n")
	var ps []orb.Point
	for i := 0; i < n; i++ {
		var q orb.Point
		switch k := rapid.IntRange(0, 5).Draw(t, "pk"); {
		case k == 0 || (i == 0 && k >= 3):
			q = orb.Point{rapid.Float64Range(box.Min[0]-w, box.Max[0]+w).Draw(t, "x"), rapid.Float64Range(box.Min[1]-h, box.Max[1]+h).Draw(t, "y")}
		case k <= 2:
			d := rapid.IntRange(0, 1).Draw(t, "axis")
			edge := []float64{box.Min[d], box.Max[d]}[rapid.IntRange(0, 1).Draw(t, "side")]
			q[d] = edge + size[d]*rapid.Float64Range(-1e-3, 1e-3).Draw(t, "perp")
			q[1-d] = rapid.Float64Range(box.Min[1-d]-size[1-d]/2, box.Max[1-d]+size[1-d]/2).Draw(t, "along")
		default:
			d := rapid.IntRange(0, 1).Draw(t, "axis")
			m := math.Pow(10, -rapid.Float64Range(1, 4).Draw(t, "slope")) * float64(2*rapid.IntRange(0, 1).Draw(t, "ms")-1)
			l := size[d] * rapid.Float64Range(0.2, 3).Draw(t, "len") * float64(2*rapid.IntRange(0, 1).Draw(t, "ls")-1)
			q[d] = ps[i-1][d] + l
			q[1-d] = ps[i-1][1-d] + l*m
		}
		ps = append(ps, q)
	}
	c.Box = gen.FromBound(box)
	c.G = gen.G{V: finishRing(t, ps)}
	c.SplitX = gen.F(box.Min[0] + rapid.Float64Range(0.1, 0.9).Draw(t, "fx")*w)
	c.SplitY = gen.F(box.Min[1] + rapid.Float64Range(0.1, 0.9).Draw(t, "fy")*h)
	return c
}

// drawFarVertices (class M4): the box stays lattice sized, some ring vertices are 2^21..2^40 box
// sizes away: c +/- 2^k*(dx,dy) with c on the half-lattice near the box and small integer
// directions, often as an opposite pair so that the edge between them passes through c obliquely
// (through the box when c is inside, outside it otherwise). Only PART of the case is rescaled.
func drawFarVertices(t *rapid.T, c Case) Case {
	x0 := rapid.IntRange(0, 3).Draw(t, "bx0")
	y0 := rapid.IntRange(0, 3).Draw(t, "by0")
	w := rapid.IntRange(1, 2).Draw(t, "bw")
	h := rapid.IntRange(1, 2).Draw(t, "bh")
	box := orb.Bound{Min: orb.Point{float64(x0), float64(y0)}, Max: orb.Point{float64(x0 + w), float64(y0 + h)}}
	near := func() orb.Point {
		return orb.Point{float64(rapid.IntRange(2*x0-3, 2*(x0+w)+3).Draw(t, "cx")) / 2 / 2 * 2, float64(rapid.IntRange(4*y0-6, 4*(y0+h)+6).Draw(t, "cy")) / 4}
	}
	n := rapid.IntRange(3, 7).Draw(t, "n")
	var ps []orb.Point
	for len(ps) < n {
		cpt := near()
		if rapid.IntRange(0, 3).Draw(t, "nearvertex") == 0 {
			ps = append(ps, cpt)
			continue
		}
		dx, dy := rapid.IntRange(-2, 2).Draw(t, "dx"), rapid.IntRange(-2, 2).Draw(t, "dy")
		if dx == 0 && dy == 0 {
			dx = 1
		}
		f := math.Ldexp(1, rapid.IntRange(21, 40).Draw(t, "k"))
		ps = append(ps, orb.Point{cpt[0] + f*float64(dx), cpt[1] + f*float64(dy)})
		if rapid.Bool().Draw(t, "pair") && len(ps) < n {
			ps = append(ps, orb.Point{cpt[0] - f*float64(dx), cpt[1] - f*float64(dy)})
		}
	}
	c.Box = gen.FromBound(box)
	c.G = gen.G{V: finishRing(t, ps)}
	c.SplitX, c.SplitY = gen.F(float64(x0)+0.5), gen.F(float64(y0)+0.5)
	return c
}

// scaleGeom multiplies every coordinate of g by 2^k (exact).
func scaleGeom(g orb.Geometry, k int) orb.Geometry {
	return mapGeom(g, func(p orb.Point) orb.Point { return orb.Point{math.Ldexp(p[0], k), math.Ldexp(p[1], k)} })
}

// mapGeom applies pt to every vertex of g, keeping kinds, nesting and nil-ness.
func mapGeom(g orb.Geometry, pt func(orb.Point) orb.Point) orb.Geometry {
	pts := func(ps []orb.Point) []orb.Point {
		if ps == nil {
			return nil
		}
		out := make([]orb.Point, len(ps))
		for i, p := range ps {
			out[i] = pt(p)
		}
		return out
	}
	switch v := g.(type) {
	case orb.Point:
		return pt(v)
	case orb.MultiPoint:
		return orb.MultiPoint(pts(v))
	case orb.LineString:
		return orb.LineString(pts(v))
	case orb.Ring:
		return orb.Ring(pts(v))
	case orb.MultiLineString:
		if v == nil {
			return v
		}
		out := make(orb.MultiLineString, len(v))
		for i := range v {
			out[i] = pts(v[i])
		}
		return out
	case orb.Polygon:
		if v == nil {
			return v
		}
		out := make(orb.Polygon, len(v))
		for i := range v {
			out[i] = pts(v[i])
		}
		return out
	case orb.MultiPolygon:
		if v == nil {
			return v
		}
		out := make(orb.MultiPolygon, len(v))
		for i := range v {
			if v[i] != nil {
				out[i] = mapGeom(v[i], pt).(orb.Polygon)
			}
		}
		return out
	case orb.Collection:
		if v == nil {
			return v
		}
		out := make(orb.Collection, len(v))
		for i := range v {
			out[i] = mapGeom(v[i], pt)
		}
		return out
	case orb.Bound:
		return orb.Bound{Min: pt(v.Min), Max: pt(v.Max)}
	}
	return g
}

// signedZeros (one lattice case in eight): translate the case so that the box's
// lower left corner is the origin, then give every zero coordinate a random
// sign: -0 and +0 are the same number on an edge, whatever helper compares them.
func signedZeros(t *rapid.T, c Case) Case {
	if rapid.IntRange(0, 7).Draw(t, "zeros") != 0 {
		return c
	}
	ox, oy := float64(c.Box.Min[0]), float64(c.Box.Min[1])
	mode := rapid.IntRange(0, 2).Draw(t, "zsign") // 0: all -0, 1: box +0 geometry -0, 2: alternate
	k := 0
	z := func(v float64, isBox bool) float64 {
		if v != 0 {
			return v
		}
		k++
		if mode == 0 || (mode == 1 && !isBox) || (mode == 2 && k%2 == 0) {
			return math.Copysign(0, -1)
		}
		return 0
	}
	mv := func(p gen.P, isBox bool) gen.P {
		return gen.P{gen.F(z(float64(p[0])-ox, isBox)), gen.F(z(float64(p[1])-oy, isBox))}
	}
	c.Box.Min, c.Box.Max = mv(c.Box.Min, true), mv(c.Box.Max, true)
	c.SplitX, c.SplitY = gen.F(float64(c.SplitX)-ox), gen.F(float64(c.SplitY)-oy)
	c.G = gen.G{V: mapGeom(c.G.V, func(p orb.Point) orb.Point { return mv(gen.FromPt(p), false).Pt() })}
	stats.Class("signed zeros on the box edges")
	return c
}

// rescale multiplies a whole case by 2^k, k in -60..60, one time in four: an
// exact change of the length scale under which every clause must be judged
// the same way.
func rescale(t *rapid.T, c Case) Case {
	if rapid.IntRange(0, 3).Draw(t, "rescale") != 0 {
		return c
	}
	k := rapid.IntRange(-60, 60).Draw(t, "k")
	sc := func(p gen.P) gen.P { return gen.P{gen.F(math.Ldexp(float64(p[0]), k)), gen.F(math.Ldexp(float64(p[1]), k))} }
	c.Box.Min, c.Box.Max = sc(c.Box.Min), sc(c.Box.Max)
	c.SplitX, c.SplitY = gen.F(math.Ldexp(float64(c.SplitX), k)), gen.F(math.Ldexp(float64(c.SplitY), k))
	c.G = gen.G{V: scaleGeom(c.G.V, k)}
	stats.Class("rescaled by 2^k, k in -60..60")
	return c
}

// ringFrom draws a single closed ring for the polygon generator (lattice or float).
func ringFrom(t *rapid.T, lattice bool) orb.Ring {
	n := rapid.IntRange(3, 8).Draw(t, "n")
	var ps []orb.Point
	if rapid.IntRange(0, 11).Draw(t, "emptyring") == 0 {
		return orb.Ring{}
	}
	for i := 0; i < n; i++ {
		if lattice {
			ps = append(ps, orb.Point{latticeCoord(t, "x"), latticeCoord(t, "y")})
		} else {
			ps = append(ps, orb.Point{rapid.Float64Range(-2, 8).Draw(t, "x"), rapid.Float64Range(-2, 8).Draw(t, "y")})
		}
	}
	return closeRing(ps)
}

func drawGeometryCase(t *rapid.T) (Case, string) {
	var c Case
	c.QSeed = rapid.Uint64().Draw(t, "qseed")
	lattice := rapid.Bool().Draw(t, "lattice")
	var box orb.Bound
	if lattice {
		ix0 := rapid.IntRange(2, 9).Draw(t, "bx0")
		ix1 := rapid.IntRange(ix0+1, 10).Draw(t, "bx1")
		iy0 := rapid.IntRange(2, 9).Draw(t, "by0")
		iy1 := rapid.IntRange(iy0+1, 10).Draw(t, "by1")
		box = orb.Bound{Min: orb.Point{float64(ix0) / 2, float64(iy0) / 2}, Max: orb.Point{float64(ix1) / 2, float64(iy1) / 2}}
	} else {
		f := func(lo, hi float64, l string) float64 { return rapid.Float64Range(lo, hi).Draw(t, l) }
		box = orb.Bound{Min: orb.Point{f(0, 3, "bx0"), f(0, 3, "by0")}, Max: orb.Point{f(3.01, 6, "bx1"), f(3.01, 6, "by1")}}
	}
	c.Box = gen.FromBound(box)
	c.SplitX = gen.F((box.Min[0] + box.Max[0]) / 2)
	c.SplitY = gen.F((box.Min[1] + box.Max[1]) / 2)
	name := ""
	switch rapid.IntRange(0, 4).Draw(t, "gclass") {
	case 4: // multi-geometries and collections of point-like members placed on the box's corners and
		// edges, inside and outside: the bound of such a member is degenerate (zero width and height,
		// possibly the zero bound at the origin), which is where bound helpers have their corner cases
		name = "geometry:point-like members at corners and edges"
		special := func() orb.Point {
			var p orb.Point
			for d := 0; d < 2; d++ {
				lo, hi := box.Min[d], box.Max[d]
				p[d] = []float64{lo, hi, (lo + hi) / 2, lo - (hi - lo), hi + (hi - lo)}[rapid.IntRange(0, 4).Draw(t, "pos")]
			}
			return p
		}
		var member func(depth int) orb.Geometry
		member = func(depth int) orb.Geometry {
			p := special()
			switch k := rapid.IntRange(0, 8).Draw(t, "mk"); {
			case k == 0:
				return p
			case k == 1:
				return orb.MultiPoint{p}
			case k == 2:
				return orb.LineString{p, p}
			case k == 3:
				return orb.LineString{p, special()}
			case k == 4:
				return orb.Ring{p, p, p, p}
			case k == 5:
				return orb.Polygon{orb.Ring{p, p, p, p}}
			case k == 6:
				return orb.Bound{Min: p, Max: p}
			case k == 7 && depth < 2:
				c := orb.Collection{}
				for i, n := 0, rapid.IntRange(1, 3).Draw(t, "nn"); i < n; i++ {
					c = append(c, member(depth+1))
				}
				return c
			}
			return orb.MultiLineString{{p, p}, {special(), special()}}
		}
		n := rapid.IntRange(2, 4).Draw(t, "members")
		switch rapid.IntRange(0, 3).Draw(t, "wrap") {
		case 0:
			mp := orb.MultiPoint{}
			for i := 0; i < n; i++ {
				mp = append(mp, special())
			}
			c.G = gen.G{V: mp}
		case 1:
			mls := orb.MultiLineString{}
			for i := 0; i < n; i++ {
				p := special()
				mls = append(mls, orb.LineString{p, p})
			}
			c.G = gen.G{V: mls}
		case 2:
			mpg := orb.MultiPolygon{}
			for i := 0; i < n; i++ {
				p := special()
				mpg = append(mpg, orb.Polygon{orb.Ring{p, p, p, p}})
			}
			c.G = gen.G{V: mpg}
		default:
			col := orb.Collection{}
			for i := 0; i < n; i++ {
				col = append(col, member(0))
			}
			c.G = gen.G{V: col}
		}
		if rapid.Bool().Draw(t, "origin") { // put the box's lower left corner at the origin (exact on the lattice; a float box moves by a rounded amount, which is as good)
			o := box.Min
			mv := func(p orb.Point) orb.Point { return orb.Point{p[0] - o[0], p[1] - o[1]} }
			nb := orb.Bound{Min: mv(box.Min), Max: mv(box.Max)}
			c.G = gen.G{V: mapGeom(c.G.V, func(p orb.Point) orb.Point {
				q := mv(p)
				for d := 0; d < 2; d++ { // keep "on the edge" exact after the move
					if p[d] == box.Min[d] {
						q[d] = nb.Min[d]
					} else if p[d] == box.Max[d] {
						q[d] = nb.Max[d]
					}
				}
				return q
			})}
			c.Box = gen.FromBound(nb)
			c.SplitX, c.SplitY = gen.F((nb.Min[0]+nb.Max[0])/2), gen.F((nb.Min[1]+nb.Max[1])/2)
		}
	case 0: // polygon with holes
		name = "geometry:polygon with holes"
		p := orb.Polygon{}
		for i, k := 0, rapid.IntRange(1, 3).Draw(t, "rings"); i < k; i++ {
			p = append(p, ringFrom(t, lattice))
		}
		c.G = gen.G{V: p}
	case 1:
		name = "geometry:multi-polygon"
		mp := orb.MultiPolygon{}
		for i, k := 0, rapid.IntRange(1, 3).Draw(t, "polys"); i < k; i++ {
			p := orb.Polygon{}
			for j, r := 0, rapid.IntRange(0, 2).Draw(t, "rings"); j < r; j++ {
				p = append(p, ringFrom(t, lattice))
			}
			mp = append(mp, p)
		}
		c.G = gen.G{V: mp}
	default: // the whole geometry universe, collections nested up to depth 2
		name = "geometry:universe (all kinds, collections)"
		coord := rapid.Float64Range(-2, 8)
		if lattice {
			coord = gen.Mix(rapid.Custom(func(t *rapid.T) float64 { return float64(rapid.IntRange(0, 12).Draw(t, "h")) / 2 }))
		}
		o := gen.Opts{Coord: coord, Empty: true, EmptyMembers: true, NilSlices: true, Degenerate: true, MaxDepth: 2, MaxLen: 5}
		c.G = gen.G{V: gen.Geom(o).Draw(t, "g")}
	}
	if lattice {
		name += " / lattice"
		c = signedZeros(t, c)
	} else {
		name += " / float"
	}
	return rescale(t, c), name
}

func record(c Case, group string) {
	stats.Class("result:" + resultClass(c))
	if lastCut {
		stats.NonTrivial(gen.JSON(c))
		if stats.WantSample(group) {
			stats.Sample(group, c)
		}
	}
}

// resultClass names what happened to the (first) ring of the case, for the class counters only.
func resultClass(c Case) string {
	box := c.Box.Bound()
	r, ok := c.G.V.(orb.Ring)
	if !ok {
		if lastCut {
			return "geometry cut"
		}
		return "geometry not cut"
	}
	allIn, allOut := true, true
	for _, p := range r {
		if inBox(box, p) {
			allOut = false
		} else {
			allIn = false
		}
	}
	switch {
	case allIn:
		return "ring wholly inside"
	case !lastCut:
		return "ring unchanged though not inside (cannot happen)"
	case lastNil:
		return "ring clipped to nothing"
	case allOut:
		return "ring with every vertex outside, something left"
	}
	return "ring cut by the box, something left"
}

func TestPropRings(t *testing.T) {
	assumptions()
	stats.Check(t, 480000, 12000000, func(rt *rapid.T) {
		c, name := drawRingCase(rt)
		stats.Class(name)
		stats.Try(rt, "TestPropRings", c, func() error { return checkCase(c) })
		record(c, "ring")
	})
	sh, _ := stats.Shard()
	stats.Note(fmt.Sprintf("worst_area_error_over_tolerance_shard%d", sh), fmt.Sprintf("%.3g", worstArea))
	stats.Note(fmt.Sprintf("membership_queries_judged_exactly_on_far_rings_shard%d", sh), fmt.Sprintf("%d", farQueries))
}

func TestPropGeometry(t *testing.T) {
	assumptions()
	stats.Check(t, 160000, 3000000, func(rt *rapid.T) {
		c, name := drawGeometryCase(rt)
		stats.Class(name)
		stats.Class("kind:" + gen.KindOf(c.G.V))
		stats.Try(rt, "TestPropGeometry", c, func() error { return checkCase(c) })
		record(c, "geometry")
	})
}

// ---------------------------------------------------------------- concurrent callers

// bigRing: 20..300 vertices winding around and through the box.
func bigRing(t *rapid.T, lattice bool, box orb.Bound) orb.Ring {
	n := rapid.IntRange(20, 300).Draw(t, "n")
	ps := make([]orb.Point, n)
	star := rapid.Bool().Draw(t, "star")
	cx, cy := (box.Min[0]+box.Max[0])/2, (box.Min[1]+box.Max[1])/2
	for i := range ps {
		switch {
		case star: // radius alternating in and out of the box
			a := 2 * math.Pi * (float64(i) + rapid.Float64Range(0, 0.8).Draw(t, "jit")) / float64(n)
			r := rapid.Float64Range(0.2, 5).Draw(t, "rad")
			ps[i] = orb.Point{cx + r*math.Cos(a), cy + r*math.Sin(a)}
			if lattice {
				ps[i] = orb.Point{math.Round(ps[i][0]*2) / 2, math.Round(ps[i][1]*2) / 2}
			}
		case lattice:
			ps[i] = orb.Point{float64(rapid.IntRange(0, 24).Draw(t, "x")) / 2, float64(rapid.IntRange(0, 24).Draw(t, "y")) / 2}
		default:
			ps[i] = orb.Point{rapid.Float64Range(-2, 8).Draw(t, "x"), rapid.Float64Range(-2, 8).Draw(t, "y")}
		}
	}
	return closeRing(ps)
}

// drawBigCase: rings, polygons, multi-polygons and collections made of big rings
// (so that one clip call lasts long enough to overlap with others), or an ordinary case.
func drawBigCase(t *rapid.T) Case {
	switch rapid.IntRange(0, 7).Draw(t, "bigkind") {
	case 0:
		c, _ := drawRingCase(t)
		return c
	case 1:
		c, _ := drawGeometryCase(t)
		return c
	}
	var c Case
	c.QSeed = rapid.Uint64().Draw(t, "qseed")
	lattice := rapid.Bool().Draw(t, "lattice")
	var box orb.Bound
	if lattice {
		x0 := rapid.IntRange(1, 9).Draw(t, "bx0")
		x1 := rapid.IntRange(x0+1, 11).Draw(t, "bx1")
		y0 := rapid.IntRange(1, 9).Draw(t, "by0")
		y1 := rapid.IntRange(y0+1, 11).Draw(t, "by1")
		box = orb.Bound{Min: orb.Point{float64(x0), float64(y0)}, Max: orb.Point{float64(x1), float64(y1)}}
	} else {
		f := func(lo, hi float64, l string) float64 { return rapid.Float64Range(lo, hi).Draw(t, l) }
		box = orb.Bound{Min: orb.Point{f(0, 3, "bx0"), f(0, 3, "by0")}, Max: orb.Point{f(3.01, 6, "bx1"), f(3.01, 6, "by1")}}
	}
	c.Box = gen.FromBound(box)
	c.SplitX = gen.F((box.Min[0] + box.Max[0]) / 2)
	c.SplitY = gen.F((box.Min[1] + box.Max[1]) / 2)
	poly := func() orb.Polygon {
		p := orb.Polygon{}
		for i, k := 0, rapid.IntRange(1, 3).Draw(t, "rings"); i < k; i++ {
			p = append(p, bigRing(t, lattice, box))
		}
		return p
	}
	switch rapid.IntRange(0, 3).Draw(t, "shape") {
	case 0:
		c.G = gen.G{V: bigRing(t, lattice, box)}
	case 1:
		c.G = gen.G{V: poly()}
	case 2:
		mp := orb.MultiPolygon{}
		for i, k := 0, rapid.IntRange(1, 3).Draw(t, "polys"); i < k; i++ {
			mp = append(mp, poly())
		}
		c.G = gen.G{V: mp}
	default:
		col := orb.Collection{}
		for i, k := 0, rapid.IntRange(1, 4).Draw(t, "members"); i < k; i++ {
			switch rapid.IntRange(0, 3).Draw(t, "member") {
			case 0:
				col = append(col, bigRing(t, lattice, box))
			case 1:
				col = append(col, poly())
			case 2:
				col = append(col, orb.LineString(bigRing(t, lattice, box)))
			default:
				col = append(col, orb.MultiPoint(bigRing(t, lattice, box)))
			}
		}
		c.G = gen.G{V: col}
	}
	return c
}

// concurrentGroup: every case is first checked alone (full oracle), its
// results are recorded, and then all cases are clipped at the same time on
// their own goroutines: the clip functions depend on their arguments only, so
// every concurrent result must be bit-identical to the one computed alone.
// Returns whether each case was cut (the non-trivial rule).
func concurrentGroup(cs []Case) (cut []bool, f func(i int) error, err error) {
	refs := make([][]orb.Geometry, len(cs))
	cut = make([]bool, len(cs))
	for i, c := range cs {
		if err := stats.Guard(func() error { return checkCase(c) }); err != nil {
			return nil, nil, fmt.Errorf("case %d of the group fails on its own: %w", i, err)
		}
		cut[i] = lastCut
		refs[i] = outputs(c)
	}
	reps := make([]int, len(cs))
	for i, c := range cs {
		_, bits := gen.Flatten(c.G.V)
		reps[i] = max(1, min(100, 600/(len(bits)+1))) // short calls are repeated: many entries per round
	}
	return cut, func(i int) error {
		for k := 0; k < reps[i]; k++ {
			if err := sameOutputs(outputs(cs[i]), refs[i]); err != nil {
				return err
			}
		}
		return nil
	}, nil
}

func TestPropConcurrent(t *testing.T) {
	assumptions()
	stats.Check(t, 1200, 50000, func(rt *rapid.T) {
		n := rapid.IntRange(2, 8).Draw(rt, "goroutines")
		cs := make([]Case, n)
		for i := range cs {
			cs[i] = drawBigCase(rt)
		}
		stats.Class(fmt.Sprintf("concurrent:%d goroutines", n))
		cut, f, err := concurrentGroup(cs)
		if err != nil {
			stats.Try(rt, "TestPropConcurrent", cs, func() error { return err })
		}
		nt := 0
		for _, b := range cut {
			if b {
				nt++
			}
		}
		if nt >= 2 {
			stats.NonTrivial("conc:" + gen.JSON(cs))
			if stats.WantSample("concurrent") {
				stats.Sample("concurrent", cs)
			}
		}
		stats.TryParallel(rt, "TestPropConcurrent", cs, n, 12, f)
	})
}

// TestKnownProductUnderflow runs the witness of finding clip-intersect-product-underflow
// (testdata/known_product_underflow.json, found by the thorough sweep at VERIF_SEED=5) through the
// same check as every other case, without the exclusion.
func TestKnownProductUnderflow(t *testing.T) {
	stats.Eval("TestKnownProductUnderflow", 1)
	c, err := loadWitness()
	if err != nil {
		t.Fatal(err)
	}
	ferr := stats.Guard(func() error { return checkCaseRaw(c) })
	if ferr == nil {
		return // repaired: nothing to report (and nothing is excluded once the entry is no longer listed)
	}
	if !underflowFamily(c.Box.Bound(), c.G.V) {
		t.Fatalf("the witness is not in the family the exclusion uses")
	}
	what := "clip.Ring on the witness ring of testdata/known_product_underflow.json: " + strings.SplitN(ferr.Error(), ";", 2)[0]
	if _, ok := kf.Get("C08", knownUnderflowKey); ok {
		stats.Known(knownUnderflowKey, what)
		return
	}
	if sh, _ := stats.Shard(); sh != 0 {
		return
	}
	path := stats.RecordFailure("TestKnownProductUnderflow", c, ferr)
	t.Fatalf("%v [not listed in known_findings.json] (replay %s)", ferr, path)
}

func loadWitness() (Case, error) {
	var c Case
	dir := os.Getenv("VERIF_DIR")
	if dir == "" {
		dir = "/verif"
	}
	b, err := os.ReadFile(filepath.Join(dir, "harness", "props", "c08", "testdata", "known_product_underflow.json"))
	if err != nil {
		return c, err
	}
	var rf struct {
		Case json.RawMessage `json:"case"`
	}
	if err := json.Unmarshal(b, &rf); err != nil {
		return c, err
	}
	return c, json.Unmarshal(rf.Case, &c)
}

// TestEnumTriangles: every closed three-vertex list on the 5x5 integer lattice
// (degenerate ones included) against the 9 boxes with corners on {1,2,3}^2.
func TestEnumTriangles(t *testing.T) {
	assumptions()
	var pts []orb.Point
	for x := 0; x < 5; x++ {
		for y := 0; y < 5; y++ {
			pts = append(pts, orb.Point{float64(x), float64(y)})
		}
	}
	var idx int64
	for x0 := 1; x0 <= 3; x0++ {
		for x1 := x0 + 1; x1 <= 3; x1++ {
			for y0 := 1; y0 <= 3; y0++ {
				for y1 := y0 + 1; y1 <= 3; y1++ {
					box := orb.Bound{Min: orb.Point{float64(x0), float64(y0)}, Max: orb.Point{float64(x1), float64(y1)}}
					for _, a := range pts {
						for _, b := range pts {
							for _, cc := range pts {
								idx++
								if !stats.Mine(idx) {
									continue
								}
								c := Case{Box: gen.FromBound(box), G: gen.G{V: orb.Ring{a, b, cc, a}}, QSeed: uint64(idx),
									SplitX: gen.F(float64(x0) + 0.5), SplitY: gen.F(float64(y0) + 0.5)}
								stats.Eval("TestEnumTriangles", 1)
								stats.TryT(t, "TestEnumTriangles", c, func() error { return checkCase(c) })
								if lastCut {
									stats.NonTrivialHash(uint64(idx)*0x9e3779b97f4a7c15 + 8)
									if stats.WantSample("triangle") {
										stats.Sample("triangle", c)
									}
								}
							}
						}
					}
				}
			}
		}
	}
	stats.Subspace("all 25^3 closed three-vertex lists on the 5x5 integer lattice x the 9 boxes with corners on {1,2,3}^2", idx, true)
}

func TestReplay(t *testing.T) {
	_, raw, ok := stats.Replaying()
	if !ok {
		t.Skip("no replay file")
	}
	if name, _, _ := stats.Replaying(); name == "TestKnownProductUnderflow" {
		var c Case
		if err := json.Unmarshal(raw, &c); err != nil {
			t.Fatal(err)
		}
		if err := stats.Guard(func() error { return checkCaseRaw(c) }); err != nil {
			t.Fatalf("replayed case still fails: %v", err)
		}
		fmt.Println("replayed case passes")
		return
	}
	if name, _, _ := stats.Replaying(); name == "TestEnumLarge" {
		var c LargeCase
		if err := json.Unmarshal(raw, &c); err != nil {
			t.Fatal(err)
		}
		if err := stats.Guard(func() error { return checkLarge(c) }); err != nil {
			t.Fatalf("replayed large case still fails: %v", err)
		}
		fmt.Println("replayed large case passes")
		return
	}
	if name, _, _ := stats.Replaying(); name == "TestPropConcurrent" {
		var cs []Case
		if err := json.Unmarshal(raw, &cs); err != nil {
			t.Fatal(err)
		}
		_, f, err := concurrentGroup(cs)
		if err != nil {
			t.Fatalf("replayed concurrent group: %v", err)
		}
		for k := 0; k < 20; k++ {
			if err := stats.ParallelErr(len(cs), 200, f); err != nil {
				t.Fatalf("replayed concurrent group still fails: %v", err)
			}
		}
		fmt.Println("replayed concurrent group passes")
		return
	}
	var c Case
	if err := json.Unmarshal(raw, &c); err != nil {
		t.Fatal(err)
	}
	if err := stats.Guard(func() error { return checkCase(c) }); err != nil {
		t.Fatalf("replayed case still fails: %v", err)
	}
	fmt.Println("replayed case passes")
}
