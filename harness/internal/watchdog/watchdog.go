// Package watchdog turns a hang inside the code under test into a recorded
// failing case. A check calls Enter(test, case) before it hands a case to orb
// and Leave() afterwards (two atomic stores, no I/O). A background goroutine
// looks once per interval; when the same case has been in flight for longer
// than the limit it writes the case with stats.InFlight (the driver converts a
// leftover inflight.json of a dead worker into the replay file of a
// violation) and panics, which ends the worker with "panic:" in its log.
package watchdog

import (
	"fmt"
	"sync"
	"sync/atomic"
	"time"

	"verifharness/internal/stats"
)

type entry struct {
	test string
	c    interface{}
	seq  uint64
}

var (
	cur  atomic.Pointer[entry]
	seq  atomic.Uint64
	once sync.Once
)

// Limit is the time one case may stay in flight (six orders of magnitude above
// the normal cost of a clip case).
var Limit = 10 * time.Second

// Enter marks c as the case being decided; it starts the watcher on first use.
func Enter(test string, c interface{}) {
	once.Do(func() { go watch() })
	cur.Store(&entry{test, c, seq.Add(1)})
}

// Leave marks the case as finished.
func Leave() { cur.Store(nil) }

func watch() {
	var last uint64
	var since time.Time
	for {
		time.Sleep(250 * time.Millisecond)
		e := cur.Load()
		if e == nil {
			last = 0
			continue
		}
		if e.seq != last {
			last, since = e.seq, time.Now()
			continue
		}
		if time.Since(since) > Limit {
			stats.InFlight(e.test, e.c)
			panic(fmt.Sprintf("watchdog: case of %s in flight for more than %v (hang in the code under test); case written to inflight.json", e.test, Limit))
		}
	}
}
