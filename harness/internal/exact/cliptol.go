package exact

import (
	"math"

	"github.com/paulmach/orb"
)

// cliptol.go: what a well-conditioned float64 evaluation of "segment a->b
// meets an axis-parallel line" achieves. The clip checks (C07, C08) build
// their tolerances from these bounds, so that no tolerance carries an absolute
// length unit and a loss of accuracy far from the origin is not swallowed by a
// bound proportional to the largest coordinate of the whole case.
//
// The crossing with a horizontal line y = Y is x = a0 + (b0-a0)*(Y-a1)/(b1-a1).
// Every difference of two floats is rounded relative to itself, so the product
// and quotient carry a few eps relative to |x - a0| <= |b0-a0| and the final
// sum a few eps relative to |x| <= max(|a0|,|b0|):
//
//	RX = ClipK*eps*(max(|a0|,|b0|) + |b0-a0|) + underflow/|b1-a1|
//
// (ClipK = 64 leaves more than an order of magnitude for other evaluation
// orders; measured on orb: worst error about 0.015*RX.) A point obtained from a
// second intersection of the same segment, starting from the first computed
// point, inherits the first error times the slope against the second line.

// ClipEps is 2^-52, ClipK the safety factor of every bound.
const (
	ClipEps = 0x1p-52
	ClipK   = 64
	// a product that underflows loses up to 2^-1075 absolutely before it is divided
	clipUnderflow = 0x1p-1060
)

// SegTol holds the bounds for one segment: RX / RY for the free coordinate of
// a single crossing with a horizontal / vertical line, SX = |dx/dy| and
// SY = |dy/dx| (0 when undefined) for propagating an error to a second crossing.
type SegTol struct{ RX, RY, SX, SY float64 }

// Mul0 is a*b with 0*Inf = 0.
func Mul0(a, b float64) float64 {
	if a == 0 || b == 0 {
		return 0
	}
	return a * b
}

// SegTolOf computes the bounds of segment a->b.
func SegTolOf(a, b orb.Point) SegTol {
	dx, dy := math.Abs(b[0]-a[0]), math.Abs(b[1]-a[1])
	t := SegTol{
		RX: ClipK * ClipEps * (math.Max(math.Abs(a[0]), math.Abs(b[0])) + dx),
		RY: ClipK * ClipEps * (math.Max(math.Abs(a[1]), math.Abs(b[1])) + dy),
	}
	if dy > 0 {
		t.SX = dx / dy
		t.RX += clipUnderflow / dy
	}
	if dx > 0 {
		t.SY = dy / dx
		t.RY += clipUnderflow / dx
	}
	return t
}

// Loose is the bound for a point reached through two intersections.
func (t SegTol) Loose() (ex, ey float64) {
	return 2 * (t.RX + Mul0(t.RY, t.SX)), 2 * (t.RY + Mul0(t.RX, t.SY))
}

// PathSmall is the largest two-intersection bound (x + y) over the segments of
// a path: below twice this size a clipped piece is indistinguishable from a
// point of contact.
func PathSmall(ps []orb.Point, closed bool) float64 {
	s := 0.0
	n := len(ps)
	for i := 0; i+1 < n || (closed && i < n && n > 1); i++ {
		ex, ey := SegTolOf(ps[i], ps[(i+1)%n]).Loose()
		s = math.Max(s, ex+ey)
	}
	return s
}

// PathSingle is the largest single-intersection bound max(RX, RY) over the
// segments of a path.
func PathSingle(ps []orb.Point, closed bool) float64 {
	s := 0.0
	n := len(ps)
	for i := 0; i+1 < n || (closed && i < n && n > 1); i++ {
		t := SegTolOf(ps[i], ps[(i+1)%n])
		s = math.Max(s, math.Max(t.RX, t.RY))
	}
	return s
}
