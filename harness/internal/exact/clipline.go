// Package exact holds exact (rational arithmetic) reference models that the
// property checks compare orb's float64 results against.
//
// clipline.go: the exact model of "the part of a line string inside a box".
// It is written once against a small arithmetic interface and instantiated
// with two back ends: math/big.Rat (exact for every finite float64) and an
// int64 fraction (about 15x faster; only used when every coordinate is a
// half-integer of small magnitude, see FastEligible). ClipLine picks the back
// end; ClipLineRat / ClipLineFast force one (used to cross-check them).
package exact

import (
	"math"
	"math/big"

	"github.com/paulmach/orb"
)

// ClipRun is one maximal connected part of the line inside the box, in travel
// order.
type ClipRun struct {
	SegStart, SegEnd int        // first and last contributing segment (segment i is ls[i] -> ls[i+1])
	Start, End       [2]float64 // the exact end points, rounded to the nearest float64
	StartAtVertex    bool       // Start is exactly ls[SegStart]
	EndAtVertex      bool       // End is exactly ls[SegEnd+1]
	Inner            []int      // indices of the input vertices passed between Start and End (SegStart+1 .. SegEnd)
	Zero             bool       // the run is a single point (exactly)
	Length           float64    // sum over segments of (t1-t0)*|segment|, t exact, product in float64
}

// ClipResult is the model's answer for one line string.
type ClipResult struct {
	Runs []ClipRun
	// The three flags below always refer to the CLOSED box, whatever the option.
	Partial    bool // some segment is partly inside and partly outside (it crosses the boundary)
	OnBoundary bool // some vertex lies on the boundary of the box
	AlongEdge  bool // some positive-length segment portion lies on the line of a box edge, inside the box
	Fast       bool // computed by the int64 back end
}

// arith is the arithmetic the model needs.
type arith[T any] interface {
	From(f float64) T
	Add(a, b T) T
	Sub(a, b T) T
	Mul(a, b T) T
	Quo(a, b T) T
	Cmp(a, b T) int
	Sign(a T) int
	Float(a T) float64
}

// ---------------------------------------------------------------- big.Rat back end

type ratArith struct{}

func (ratArith) From(f float64) *big.Rat   { return new(big.Rat).SetFloat64(f) }
func (ratArith) Add(a, b *big.Rat) *big.Rat { return new(big.Rat).Add(a, b) }
func (ratArith) Sub(a, b *big.Rat) *big.Rat { return new(big.Rat).Sub(a, b) }
func (ratArith) Mul(a, b *big.Rat) *big.Rat { return new(big.Rat).Mul(a, b) }
func (ratArith) Quo(a, b *big.Rat) *big.Rat { return new(big.Rat).Quo(a, b) }
func (ratArith) Cmp(a, b *big.Rat) int      { return a.Cmp(b) }
func (ratArith) Sign(a *big.Rat) int        { return a.Sign() }
func (ratArith) Float(a *big.Rat) float64   { f, _ := a.Float64(); return f }

// ---------------------------------------------------------------- int64 fraction back end

// q is n/d with d > 0, always reduced.
type q struct{ n, d int64 }

func gcd(a, b int64) int64 {
	if a < 0 {
		a = -a
	}
	if b < 0 {
		b = -b
	}
	for b != 0 {
		a, b = b, a%b
	}
	return a
}

func mkq(n, d int64) q {
	if d < 0 {
		n, d = -n, -d
	}
	if n == 0 {
		return q{0, 1}
	}
	if g := gcd(n, d); g > 1 {
		n, d = n/g, d/g
	}
	return q{n, d}
}

type qArith struct{}

// From is exact for the half-integers FastEligible admits.
func (qArith) From(f float64) q { return mkq(int64(f*2), 2) }
func (qArith) Add(a, b q) q     { return mkq(a.n*b.d+b.n*a.d, a.d*b.d) }
func (qArith) Sub(a, b q) q     { return mkq(a.n*b.d-b.n*a.d, a.d*b.d) }
func (qArith) Mul(a, b q) q     { return mkq(a.n*b.n, a.d*b.d) }
func (qArith) Quo(a, b q) q     { return mkq(a.n*b.d, a.d*b.n) }
func (qArith) Cmp(a, b q) int {
	l, r := a.n*b.d, b.n*a.d
	switch {
	case l < r:
		return -1
	case l > r:
		return 1
	}
	return 0
}
func (qArith) Sign(a q) int {
	switch {
	case a.n < 0:
		return -1
	case a.n > 0:
		return 1
	}
	return 0
}

// Float is correctly rounded: both operands are exact in float64.
func (qArith) Float(a q) float64 { return float64(a.n) / float64(a.d) }

// fastLimit bounds |2*coordinate| for the int64 back end. With it every
// parameter t has numerator and denominator below 2^15, every point numerator
// is below 2^32, and every cross product in Cmp is below 2^50.
const fastLimit = 1 << 13

func fastOK(v float64) bool {
	w := v * 2
	return w == math.Trunc(w) && math.Abs(w) <= fastLimit
}

// FastEligible reports whether every coordinate is a half-integer with
// |2v| <= 2^13, the domain on which the int64 back end is exact.
func FastEligible(box orb.Bound, ls orb.LineString) bool {
	if !fastOK(box.Min[0]) || !fastOK(box.Min[1]) || !fastOK(box.Max[0]) || !fastOK(box.Max[1]) {
		return false
	}
	for _, p := range ls {
		if !fastOK(p[0]) || !fastOK(p[1]) {
			return false
		}
	}
	return true
}

// ---------------------------------------------------------------- the model

// ClipLine returns the exact part of ls inside box. Closed option: the set of
// points of the segments of ls lying in the closed box. Open option: the
// closure of the set of points lying strictly inside. A line string's point
// set is the union of its segments, so fewer than two vertices give nothing; a
// repeated vertex is a degenerate segment (a point).
//
// Per segment the parameter interval inside the closed box is found by exact
// Liang-Barsky. With the open option the interval counts only if it has
// positive parameter length and the segment does not lie on the line of a box
// edge (by convexity its interior points are then strictly inside).
// Consecutive intervals are joined into one run when the first ends at t=1
// and the next starts at t=0 (open option: only if the shared vertex is
// strictly inside the box).
//
// All coordinates must be finite and the box must have Min <= Max.
func ClipLine(box orb.Bound, ls orb.LineString, open bool) ClipResult {
	if FastEligible(box, ls) {
		return ClipLineFast(box, ls, open)
	}
	return ClipLineRat(box, ls, open)
}

// ClipLineRat is ClipLine on the big.Rat back end.
func ClipLineRat(box orb.Bound, ls orb.LineString, open bool) ClipResult {
	return clipLine[*big.Rat](ratArith{}, box, ls, open)
}

// ClipLineFast is ClipLine on the int64 back end; the caller must have
// checked FastEligible.
func ClipLineFast(box orb.Bound, ls orb.LineString, open bool) ClipResult {
	r := clipLine[q](qArith{}, box, ls, open)
	r.Fast = true
	return r
}

func strictlyInside(box orb.Bound, p orb.Point) bool {
	return p[0] > box.Min[0] && p[0] < box.Max[0] && p[1] > box.Min[1] && p[1] < box.Max[1]
}

func onBoundary(box orb.Bound, p orb.Point) bool {
	in := p[0] >= box.Min[0] && p[0] <= box.Max[0] && p[1] >= box.Min[1] && p[1] <= box.Max[1]
	return in && !strictlyInside(box, p)
}

func clipLine[T any](ar arith[T], box orb.Bound, ls orb.LineString, open bool) ClipResult {
	var res ClipResult
	for _, p := range ls {
		if onBoundary(box, p) {
			res.OnBoundary = true
		}
	}
	if len(ls) < 2 {
		return res
	}
	zero, one := ar.From(0), ar.From(1)
	lo := [2]T{ar.From(box.Min[0]), ar.From(box.Min[1])}
	hi := [2]T{ar.From(box.Max[0]), ar.From(box.Max[1])}

	pts := make([][2]T, len(ls))
	for i, p := range ls {
		pts[i] = [2]T{ar.From(p[0]), ar.From(p[1])}
	}
	at := func(i int, t T) [2]T {
		var out [2]T
		for dim := 0; dim < 2; dim++ {
			d := ar.Sub(pts[i+1][dim], pts[i][dim])
			out[dim] = ar.Add(pts[i][dim], ar.Mul(d, t))
		}
		return out
	}
	same := func(a, b [2]T) bool { return ar.Cmp(a[0], b[0]) == 0 && ar.Cmp(a[1], b[1]) == 0 }

	type cur struct {
		run    ClipRun
		s, e   [2]T
		et     T
		active bool
	}
	var c cur
	flush := func() {
		if !c.active {
			return
		}
		r := c.run
		r.Start = [2]float64{ar.Float(c.s[0]), ar.Float(c.s[1])}
		r.End = [2]float64{ar.Float(c.e[0]), ar.Float(c.e[1])}
		r.Zero = same(c.s, c.e)
		if r.Zero {
			for _, k := range r.Inner {
				if !same(pts[k], c.s) {
					r.Zero = false
				}
			}
		}
		res.Runs = append(res.Runs, r)
		c = cur{}
	}

	for i := 0; i+1 < len(ls); i++ {
		// exact Liang-Barsky against the closed box
		t0, t1 := zero, one
		empty, edgeLine, degenerate := false, false, true
		for dim := 0; dim < 2 && !empty; dim++ {
			p0 := pts[i][dim]
			d := ar.Sub(pts[i+1][dim], p0)
			if ar.Sign(d) == 0 {
				c0, c1 := ar.Cmp(p0, lo[dim]), ar.Cmp(p0, hi[dim])
				if c0 < 0 || c1 > 0 {
					empty = true
				}
				if c0 == 0 || c1 == 0 {
					edgeLine = true
				}
				continue
			}
			degenerate = false
			ta := ar.Quo(ar.Sub(lo[dim], p0), d)
			tb := ar.Quo(ar.Sub(hi[dim], p0), d)
			if ar.Cmp(ta, tb) > 0 {
				ta, tb = tb, ta
			}
			if ar.Cmp(ta, t0) > 0 {
				t0 = ta
			}
			if ar.Cmp(tb, t1) < 0 {
				t1 = tb
			}
		}
		cmp := 0
		if !empty {
			cmp = ar.Cmp(t0, t1)
			if cmp > 0 {
				empty = true
			}
		}
		if !empty {
			if ar.Sign(t0) > 0 || ar.Cmp(t1, one) < 0 {
				res.Partial = true
			}
			if edgeLine && !degenerate && cmp < 0 {
				res.AlongEdge = true
			}
		}
		ok := !empty
		if ok && open && (cmp == 0 || edgeLine) {
			ok = false
		}
		if !ok {
			flush()
			continue
		}
		cont := c.active && c.run.SegEnd == i-1 && ar.Sign(t0) == 0 && ar.Cmp(c.et, one) == 0
		if cont && open && !strictlyInside(box, ls[i]) {
			cont = false
		}
		if !cont {
			flush()
			c.active = true
			c.run.SegStart = i
			c.run.StartAtVertex = ar.Sign(t0) == 0
			c.s = at(i, t0)
		} else {
			c.run.Inner = append(c.run.Inner, i)
		}
		c.run.SegEnd = i
		c.run.EndAtVertex = ar.Cmp(t1, one) == 0
		c.e = at(i, t1)
		c.et = t1
		dt := ar.Float(ar.Sub(t1, t0))
		c.run.Length += dt * math.Hypot(ls[i+1][0]-ls[i][0], ls[i+1][1]-ls[i][1])
	}
	flush()
	return res
}
