package stats

import (
	"fmt"
	"runtime"
	"sync"
	"testing"

	"pgregory.net/rapid"
)

// runParallel releases n goroutines together; goroutine i evaluates f(i)
// `rounds` times under Guard. The first error (lowest goroutine index) is
// returned. f(i) must be a pure function of independent inputs that passes
// when run alone: an error here then means that concurrent callers of the
// library interfere with each other (package-level scratch buffers, caches
// published before they are complete, pooled objects handed out twice).
func runParallel(n, rounds int, f func(i int) error) error {
	if n < 2 {
		n = 2
	}
	if rounds < 1 {
		rounds = 1
	}
	errs := make([]error, n)
	var start, wg sync.WaitGroup
	start.Add(1)
	for i := 0; i < n; i++ {
		wg.Add(1)
		go func(i int) {
			defer wg.Done()
			start.Wait()
			for r := 0; r < rounds && errs[i] == nil; r++ {
				if err := Guard(func() error { return f(i) }); err != nil {
					errs[i] = fmt.Errorf("goroutine %d of %d, round %d (concurrent callers, independent inputs): %w", i, n, r, err)
				}
			}
		}(i)
	}
	start.Done()
	wg.Wait()
	// On an oversubscribed machine the concurrent collector is starved while the goroutines allocate, and
	// garbage of many groups piles up until the heap watchdog (meant for runaway allocation inside ONE case)
	// fires. Collect between groups when the heap is large; no single group comes near the limit.
	var ms runtime.MemStats
	runtime.ReadMemStats(&ms)
	if ms.HeapAlloc > 192<<20 {
		runtime.GC()
	}
	for _, e := range errs {
		if e != nil {
			return e
		}
	}
	return nil
}

// TryParallel is Try for a group of independent cases evaluated at the same
// time on n goroutines (see runParallel). c is the whole group and becomes
// the replay file.
func TryParallel(rt *rapid.T, test string, c interface{}, n, rounds int, f func(i int) error) {
	watch(test, c)
	err := runParallel(n, rounds, f)
	unwatch()
	if err != nil {
		p := RecordFailure(test, c, err)
		rt.Fatalf("%s: %v (replay %s)", test, err, p)
	}
}

// TryParallelT is TryParallel for plain tests and for TestReplay.
func TryParallelT(t *testing.T, test string, c interface{}, n, rounds int, f func(i int) error) {
	watch(test, c)
	err := runParallel(n, rounds, f)
	unwatch()
	if err != nil {
		p := RecordFailure(test, c, err)
		t.Fatalf("%s: %v (replay %s)", test, err, p)
	}
}

// ParallelErr exposes runParallel for replay code that wants the error.
func ParallelErr(n, rounds int, f func(i int) error) error { return runParallel(n, rounds, f) }
