// Package stats is the bookkeeping side of the verification harness: it
// counts what every check actually generated, collects the hashes of the
// distinct non-trivial cases, keeps a few samples, records failures as replay
// files, and flushes all of it to a per-shard JSON file that the ./check driver
// merges into /verif/evidence/<id>.json.
//
// Environment (set by /verif/check):
//
//	VERIF_PROP    property id (C01 …)
//	VERIF_TIER    quick | thorough
//	VERIF_SEED    integer seed, every random choice is a function of it
//	VERIF_SHARD   index of this process among VERIF_SHARDS
//	VERIF_OUT     directory for shard<i>.json / shard<i>.hashes
//	VERIF_REPLAYDIR  directory where failing cases are written
//	VERIF_REPLAY  path of a replay file (TestReplay only)
package stats

import (
	"encoding/binary"
	"encoding/json"
	"flag"
	"fmt"
	"hash/fnv"
	"os"
	"path/filepath"
	"runtime"
	"runtime/debug"
	"sort"
	"strconv"
	"strings"
	"sync"
	"sync/atomic"
	"syscall"
	"testing"
	"time"

	"pgregory.net/rapid"
)

const maxHashes = 3 << 20

type failure struct {
	Test   string `json:"test"`
	Replay string `json:"replay"`
	Error  string `json:"error"`
}

type known struct {
	Key  string `json:"key"`
	What string `json:"what"`
}

type subspace struct {
	Name       string `json:"name"`
	Size       int64  `json:"size"`
	Exhaustive bool   `json:"exhaustive"`
}

type state struct {
	mu          sync.Mutex
	prop        string
	evals       int64
	perTest     map[string]int64
	classes     map[string]int64
	hashes      map[uint64]struct{}
	ntTotal     int64
	capped      bool
	samples     map[string][]json.RawMessage
	sampleOrder []string
	subspaces   []subspace
	assumptions []string
	excluded    map[string]int64
	known       []known
	failures    []failure
	notes       map[string]string
	start       time.Time
}

var st = &state{
	perTest:  map[string]int64{},
	classes:  map[string]int64{},
	hashes:   map[uint64]struct{}{},
	samples:  map[string][]json.RawMessage{},
	excluded: map[string]int64{},
	notes:    map[string]string{},
	start:    time.Now(),
}

// ---------------------------------------------------------------- environment

func envInt(name string, def int) int {
	if s := os.Getenv(name); s != "" {
		if v, err := strconv.ParseInt(s, 10, 64); err == nil {
			return int(v)
		}
	}
	return def
}

// Tier returns "quick" or "thorough".
func Tier() string {
	if os.Getenv("VERIF_TIER") == "thorough" {
		return "thorough"
	}
	return "quick"
}

// Thorough reports whether the thorough tier is running.
func Thorough() bool { return Tier() == "thorough" }

// Shard returns this process's shard index and the number of shards.
func Shard() (int, int) {
	k := envInt("VERIF_SHARDS", 1)
	if k < 1 {
		k = 1
	}
	i := envInt("VERIF_SHARD", 0)
	if i < 0 || i >= k {
		i = 0
	}
	return i, k
}

// Mine reports whether item idx of an enumeration belongs to this shard.
func Mine(idx int64) bool {
	i, k := Shard()
	return idx%int64(k) == int64(i)
}

// Seed returns VERIF_SEED (default 1).
func Seed() uint64 {
	if s := os.Getenv("VERIF_SEED"); s != "" {
		if v, err := strconv.ParseInt(s, 10, 64); err == nil {
			return uint64(v)
		}
		if v, err := strconv.ParseUint(s, 10, 64); err == nil {
			return v
		}
	}
	return 1
}

func mix(parts ...uint64) uint64 {
	h := uint64(0x9e3779b97f4a7c15)
	for _, p := range parts {
		h ^= p + 0x9e3779b97f4a7c15 + (h << 6) + (h >> 2)
		h *= 0xbf58476d1ce4e5b9
		h ^= h >> 31
	}
	if h == 0 {
		h = 1
	}
	return h
}

// SeedFor derives a non-zero rapid seed for the named test on this shard.
func SeedFor(name string) uint64 {
	i, _ := Shard()
	return mix(Seed(), uint64(i), Hash(name))
}

// N picks the case count for this tier and divides it among the shards.
func N(quick, thorough int) int {
	n := quick
	if Thorough() {
		n = thorough
	}
	if s := os.Getenv("VERIF_SCALE"); s != "" {
		if f, err := strconv.ParseFloat(s, 64); err == nil && f > 0 {
			n = int(float64(n) * f)
		}
	}
	_, k := Shard()
	n = (n + k - 1) / k
	if n < 1 {
		n = 1
	}
	return n
}

// ---------------------------------------------------------------- counters

// Hash is FNV-1a 64 of a string.
func Hash(s string) uint64 {
	h := fnv.New64a()
	h.Write([]byte(s))
	return h.Sum64()
}

// Eval counts n executed cases for the named test.
func Eval(test string, n int64) {
	st.mu.Lock()
	st.evals += n
	st.perTest[test] += n
	st.mu.Unlock()
}

// Class increments a generator-class counter.
func Class(name string) { ClassN(name, 1) }

// ClassN adds n to a generator-class counter.
func ClassN(name string, n int64) {
	st.mu.Lock()
	st.classes[name] += n
	st.mu.Unlock()
}

// NonTrivial records one case that is non-trivial by the property's rule;
// key is a canonical rendering of the case, distinct cases are counted by
// the union of the key hashes over all shards.
func NonTrivial(key string) { NonTrivialHash(Hash(key)) }

// NonTrivialHash is NonTrivial for a pre-computed hash.
func NonTrivialHash(h uint64) {
	st.mu.Lock()
	st.ntTotal++
	if len(st.hashes) < maxHashes {
		st.hashes[h] = struct{}{}
	} else if _, ok := st.hashes[h]; !ok {
		st.capped = true
	}
	st.mu.Unlock()
}

// Sample keeps up to 3 samples per group (rendered as JSON, at most 6 KiB each).
func Sample(group string, v interface{}) {
	st.mu.Lock()
	defer st.mu.Unlock()
	if len(st.samples[group]) >= 3 {
		return
	}
	b, err := json.Marshal(v)
	if err != nil {
		b, _ = json.Marshal(fmt.Sprintf("%+v", v))
	}
	if len(b) > 6144 && len(st.samples[group]) > 0 {
		return
	}
	if len(b) > 6144 {
		b, _ = json.Marshal(string(b[:6000]) + "…(truncated)")
	}
	if _, ok := st.samples[group]; !ok {
		st.sampleOrder = append(st.sampleOrder, group)
	}
	st.samples[group] = append(st.samples[group], b)
}

// WantSample reports whether a group still has room; lets callers avoid
// rendering a case needlessly.
func WantSample(group string) bool {
	st.mu.Lock()
	defer st.mu.Unlock()
	return len(st.samples[group]) < 3
}

// Subspace declares an enumerated sub-space (size = number of cases in it
// over all shards).
func Subspace(name string, size int64, exhaustive bool) {
	st.mu.Lock()
	defer st.mu.Unlock()
	for i := range st.subspaces {
		if st.subspaces[i].Name == name {
			st.subspaces[i].Size = size
			return
		}
	}
	st.subspaces = append(st.subspaces, subspace{name, size, exhaustive})
}

// Assume records an assumption the check makes (deduplicated).
func Assume(s string) {
	st.mu.Lock()
	defer st.mu.Unlock()
	for _, a := range st.assumptions {
		if a == s {
			return
		}
	}
	st.assumptions = append(st.assumptions, s)
}

// Note attaches a free-form key/value to the evidence.
func Note(k, v string) {
	st.mu.Lock()
	st.notes[k] = v
	st.mu.Unlock()
}

// Excluded counts a generated case that was skipped because it belongs to
// the input family of a known finding.
func Excluded(name string) {
	st.mu.Lock()
	st.excluded[name]++
	st.mu.Unlock()
}

// Known reports that a listed known finding still reproduces.
func Known(key, what string) {
	st.mu.Lock()
	defer st.mu.Unlock()
	for _, k := range st.known {
		if k.Key == key {
			return
		}
	}
	st.known = append(st.known, known{key, what})
}

// ---------------------------------------------------------------- failures

// Guard runs f and converts a panic into an error carrying the stack.
func Guard(f func() error) (err error) {
	defer func() {
		if r := recover(); r != nil {
			stack := string(debug.Stack())
			if len(stack) > 1800 {
				stack = stack[:1800]
			}
			err = fmt.Errorf("panic: %v\n%s", r, stack)
		}
	}()
	return f()
}

type replayFile struct {
	Property string          `json:"property"`
	Test     string          `json:"test"`
	Error    string          `json:"error"`
	Case     json.RawMessage `json:"case"`
}

// RecordFailure writes the failing case as a replay file (overwriting the
// previous one of the same test, so the last — minimal — case survives
// shrinking) and returns its path.
func RecordFailure(test string, c interface{}, err error) string {
	dir := os.Getenv("VERIF_REPLAYDIR")
	if dir == "" {
		dir = filepath.Join(os.TempDir(), "verif-replay")
	}
	_ = os.MkdirAll(dir, 0o755)
	i, _ := Shard()
	name := strings.Map(func(r rune) rune {
		if r == '/' || r == ' ' {
			return '_'
		}
		return r
	}, test)
	path := filepath.Join(dir, fmt.Sprintf("%s-%s-seed%d-shard%d.json", name, Tier(), Seed(), i))
	cb, merr := json.Marshal(c)
	if merr != nil {
		cb, _ = json.Marshal(fmt.Sprintf("%+v", c))
	}
	msg := err.Error()
	if len(msg) > 4000 {
		msg = msg[:4000]
	}
	rb, _ := json.MarshalIndent(replayFile{Property: prop(), Test: test, Error: msg, Case: cb}, "", " ")
	_ = os.WriteFile(path, rb, 0o644)
	st.mu.Lock()
	found := false
	for k := range st.failures {
		if st.failures[k].Test == test {
			st.failures[k].Replay = path
			st.failures[k].Error = msg
			found = true
		}
	}
	if !found {
		st.failures = append(st.failures, failure{test, path, msg})
	}
	st.mu.Unlock()
	flush()
	return path
}

// Replaying reports whether a replay file was given, and if so returns the
// test name recorded in it and the raw case.
func Replaying() (test string, raw json.RawMessage, ok bool) {
	p := os.Getenv("VERIF_REPLAY")
	if p == "" {
		return "", nil, false
	}
	b, err := os.ReadFile(p)
	if err != nil {
		fmt.Fprintf(os.Stderr, "replay: %v\n", err)
		os.Exit(2)
	}
	var rf replayFile
	if err := json.Unmarshal(b, &rf); err != nil {
		fmt.Fprintf(os.Stderr, "replay: %v\n", err)
		os.Exit(2)
	}
	return rf.Test, rf.Case, true
}

func prop() string {
	if st.prop != "" {
		return st.prop
	}
	return os.Getenv("VERIF_PROP")
}

// ---------------------------------------------------------------- rapid glue

// Check runs a rapid property with a per-test case count (quick/thorough
// totals over all shards) and a seed derived from VERIF_SEED, the shard and
// the test name. Every invocation of prop is counted as an evaluation.
func Check(t *testing.T, quick, thorough int, prop func(*rapid.T)) {
	t.Helper()
	n := N(quick, thorough)
	name := t.Name()
	_ = flag.Set("rapid.checks", strconv.Itoa(n))
	_ = flag.Set("rapid.seed", strconv.FormatUint(SeedFor(name), 10))
	_ = flag.Set("rapid.nofailfile", "true")
	if flag.Lookup("rapid.shrinktime") != nil && os.Getenv("VERIF_SHRINK") == "" {
		_ = flag.Set("rapid.shrinktime", "20s")
	}
	rapid.Check(t, func(rt *rapid.T) {
		Eval(name, 1)
		prop(rt)
	})
}

// Try evaluates one case of a rapid property: f is run under Guard, and a
// failure is recorded as a replay file before the rapid test is failed (so
// that the last recorded case is the shrunk one).
func Try(rt *rapid.T, test string, c interface{}, f func() error) {
	watch(test, c)
	err := Guard(f)
	unwatch()
	if err != nil {
		p := RecordFailure(test, c, err)
		rt.Fatalf("%s: %v (replay %s)", test, err, p)
	}
}

// TryT is Try for plain (enumeration) tests.
func TryT(t *testing.T, test string, c interface{}, f func() error) {
	watch(test, c)
	err := Guard(f)
	unwatch()
	if err != nil {
		p := RecordFailure(test, c, err)
		t.Fatalf("%s: %v (replay %s)", test, err, p)
	}
}

// ---------------------------------------------------------------- output

type shardFile struct {
	Property    string                       `json:"property"`
	Tier        string                       `json:"tier"`
	Seed        uint64                       `json:"seed"`
	Shard       int                          `json:"shard"`
	Shards      int                          `json:"shards"`
	Evaluations int64                        `json:"evaluations"`
	PerTest     map[string]int64             `json:"per_test"`
	Classes     map[string]int64             `json:"classes"`
	NonTrivial  int64                        `json:"nontrivial_total"`
	Hashes      int                          `json:"hashes"`
	HashCapped  bool                         `json:"hash_capped"`
	Samples     map[string][]json.RawMessage `json:"samples"`
	SampleOrder []string                     `json:"sample_order"`
	Subspaces   []subspace                   `json:"subspaces"`
	Assumptions []string                     `json:"assumptions"`
	Excluded    map[string]int64             `json:"excluded_known"`
	Known       []known                      `json:"known"`
	Failures    []failure                    `json:"failures"`
	Notes       map[string]string            `json:"notes"`
	WallS       float64                      `json:"wall_s"`
	Done        bool                         `json:"done"`
}

var done bool

func flush() {
	out := os.Getenv("VERIF_OUT")
	if out == "" {
		return
	}
	_ = os.MkdirAll(out, 0o755)
	i, k := Shard()
	st.mu.Lock()
	defer st.mu.Unlock()
	hs := make([]uint64, 0, len(st.hashes))
	for h := range st.hashes {
		hs = append(hs, h)
	}
	sort.Slice(hs, func(a, b int) bool { return hs[a] < hs[b] })
	buf := make([]byte, 8*len(hs))
	for j, h := range hs {
		binary.LittleEndian.PutUint64(buf[8*j:], h)
	}
	_ = os.WriteFile(filepath.Join(out, fmt.Sprintf("shard%d.hashes", i)), buf, 0o644)
	sf := shardFile{
		Property: prop(), Tier: Tier(), Seed: Seed(), Shard: i, Shards: k,
		Evaluations: st.evals, PerTest: st.perTest, Classes: st.classes,
		NonTrivial: st.ntTotal, Hashes: len(hs), HashCapped: st.capped,
		Samples: st.samples, SampleOrder: st.sampleOrder, Subspaces: st.subspaces,
		Assumptions: st.assumptions, Excluded: st.excluded, Known: st.known,
		Failures: st.failures, Notes: st.notes,
		WallS: time.Since(st.start).Seconds(), Done: done,
	}
	b, _ := json.MarshalIndent(sf, "", " ")
	tmp := filepath.Join(out, fmt.Sprintf("shard%d.json.tmp", i))
	_ = os.WriteFile(tmp, b, 0o644)
	_ = os.Rename(tmp, filepath.Join(out, fmt.Sprintf("shard%d.json", i)))
}

// Main is the TestMain body of every property package.
func Main(m *testing.M, property string) {
	st.prop = property
	flag.Parse()
	code := m.Run()
	done = true
	flush()
	os.Exit(code)
}

// InFlight writes the case about to be decided to ./inflight.json (the shard's
// private working directory) in replay-file format; if the process then dies
// (fatal error: out of memory, stack overflow, kill by the watchdog) the driver
// turns that file into the replay file of a violation. Call InFlightDone after
// the case returned.
func InFlight(test string, c interface{}) {
	cb, err := json.Marshal(c)
	if err != nil {
		return
	}
	rb, _ := json.Marshal(replayFile{Property: prop(), Test: test, Error: "process died while deciding this case", Case: cb})
	_ = os.WriteFile("inflight.json", rb, 0o644)
}

// InFlightDone removes the in-flight marker.
func InFlightDone() { _ = os.Remove("inflight.json") }

// ---------------------------------------------------------------- watchdog

// A case during which this process burns more than cpuLimit seconds of CPU, or
// drives the heap above heapLimit, is a failure of the code under test (hang
// in a loop / runaway allocation): the watchdog records the case as a replay
// file and ends the process, which the driver reports as a violation. Both
// limits are orders of magnitude above what any legitimate case needs (cases
// take microseconds to milliseconds and kilobytes to megabytes). The time
// limit is measured in CPU time of the process, not wall time: on an
// oversubscribed or paused machine a trivial case can sit descheduled for
// minutes of wall time (observed during the build with load average > 300),
// and that must never raise an alarm; a case blocked without using CPU is
// left to the driver's overall budget, which reports "inconclusive".
var (
	cpuLimit  = 60.0 // seconds of process CPU time within one case
	heapLimit = uint64(3 << 30)
	curCase   atomic.Pointer[watched]
	wdOnce    sync.Once
)

type watched struct {
	test string
	c    interface{}
}

// SetLimits overrides the watchdog limits (call before the first Try):
// timeout is CPU time of the process spent inside one case.
func SetLimits(timeout time.Duration, heapBytes uint64) {
	cpuLimit, heapLimit = timeout.Seconds(), heapBytes
}

func cpuSeconds() float64 {
	var ru syscall.Rusage
	if err := syscall.Getrusage(syscall.RUSAGE_SELF, &ru); err != nil {
		return 0
	}
	return float64(ru.Utime.Sec) + float64(ru.Utime.Usec)/1e6 + float64(ru.Stime.Sec) + float64(ru.Stime.Usec)/1e6
}

func watch(test string, c interface{}) {
	wdOnce.Do(func() { go watchdog() })
	curCase.Store(&watched{test, c})
}

func unwatch() { curCase.Store(nil) }

func watchdog() {
	var ms runtime.MemStats
	var seen *watched
	var cpu0 float64
	tick := 0
	for {
		time.Sleep(100 * time.Millisecond)
		w := curCase.Load()
		if w == nil {
			seen = nil
			continue
		}
		if w != seen {
			seen, cpu0, tick = w, cpuSeconds(), 0
			continue
		}
		tick++
		if used := cpuSeconds() - cpu0; used > cpuLimit && curCase.Load() == w {
			RecordFailure(w.test, w.c, fmt.Errorf("watchdog: the case did not return after %.0f s of CPU time (hang)", used))
			os.Exit(1)
		}
		if tick%2 == 0 {
			runtime.ReadMemStats(&ms)
			if ms.HeapAlloc > heapLimit && curCase.Load() == w {
				// HeapAlloc counts garbage not yet collected. On an oversubscribed machine the collector can be
				// starved for seconds while the case (or a group of concurrent cases) allocates, so judge what
				// is LIVE after a forced collection: a runaway allocation retains its memory, garbage does not
				// (a loop that only churns garbage is caught by the CPU limit instead).
				runtime.GC()
				runtime.ReadMemStats(&ms)
			}
			if ms.HeapAlloc > heapLimit && curCase.Load() == w {
				RecordFailure(w.test, w.c, fmt.Errorf("watchdog: heap grew to %d MiB while deciding this case (runaway allocation)", ms.HeapAlloc>>20))
				os.Exit(1)
			}
		}
	}
}
