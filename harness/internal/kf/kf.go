// Package kf reads /verif/known_findings.json (never writes it). A finding
// with status "known" is a genuine defect of the code under test that is
// recorded rather than repaired; the property check that owns it excludes the
// finding's input family from random generation (counting the exclusions),
// runs the listed witnesses deterministically, prints a KNOWN-FINDING line
// while they still fail and raises a VIOLATION for any failing input the file
// does not list. A "fixed" entry suppresses nothing.
package kf

import (
	"encoding/json"
	"os"
	"path/filepath"
	"sync"
)

// Finding is one entry of known_findings.json.
type Finding struct {
	Property string   `json:"property"`
	Key      string   `json:"key"`
	Status   string   `json:"status"` // known | fixed
	Commit   string   `json:"commit,omitempty"`
	What     string   `json:"what"`
	Inputs   []string `json:"inputs,omitempty"` // canonical failing inputs (or their 64-bit hashes in hex)
	Family   string   `json:"family,omitempty"` // prose statement of the input predicate implemented by the check
}

type file struct {
	Findings []Finding `json:"findings"`
}

var (
	once   sync.Once
	loaded file
)

func load() {
	once.Do(func() {
		dir := os.Getenv("VERIF_DIR")
		if dir == "" {
			dir = "/verif"
		}
		b, err := os.ReadFile(filepath.Join(dir, "known_findings.json"))
		if err != nil {
			return
		}
		_ = json.Unmarshal(b, &loaded)
	})
}

// Get returns the entry with this property and key if its status is "known".
func Get(property, key string) (Finding, bool) {
	load()
	for _, f := range loaded.Findings {
		if f.Property == property && f.Key == key && f.Status == "known" {
			return f, true
		}
	}
	return Finding{}, false
}

// Listed reports whether input is one of the listed failing inputs of a known entry.
func Listed(property, key, input string) bool {
	f, ok := Get(property, key)
	if !ok {
		return false
	}
	for _, in := range f.Inputs {
		if in == input {
			return true
		}
	}
	return false
}

// InputSet returns the listed inputs of a known entry as a set.
func InputSet(property, key string) map[string]bool {
	f, ok := Get(property, key)
	if !ok {
		return nil
	}
	m := make(map[string]bool, len(f.Inputs))
	for _, in := range f.Inputs {
		m[in] = true
	}
	return m
}
