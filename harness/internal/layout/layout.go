// Package layout re-lays a geometry out in memory so that a function that is
// supposed to only read its argument can be caught writing to it, including
// to memory it was not given as elements (the spare capacity of a slice: an
// append or a re-slice reaches it).
//
//	shared  all point slices of the value are consecutive windows of ONE backing
//	        buffer (no gaps, three sentinel points after the last window; every
//	        window has len < cap, so an append writes into the next ring's first
//	        vertex or into a sentinel)
//	spare   every point slice has its own array with cap = len+2 and sentinel
//	        points in the two spare slots
//	plain   separately allocated slices with cap == len
//
// In the shared and spare layouts the outer slices ([]Ring, []LineString,
// []Polygon, []Geometry) also get cap = len+2 with sentinel entries. The Guard
// keeps the full-capacity view of every coordinate array with a copy of it, and
// a description (type, data pointer, len, cap, or value bits) of EVERY entry of
// every outer slice, within len and in the spare capacity; Check compares all
// of it with the state at lay-out time.
package layout

import (
	"fmt"
	"math"
	"unsafe"

	"github.com/paulmach/orb"
)

// Modes lists the three layouts.
var Modes = []string{"shared", "spare", "plain"}

var sentinelPt = orb.Point{-7.77e77, 7.77e77}

// Guard watches the memory of a laid-out value. It distinguishes
//
//	values  every element within len of every slice of the value (coordinates of every point
//	        slice, entries of every outer slice): what the caller passed. A function that is not
//	        documented to modify its input must leave them bit-identical — Check reports a change.
//	spare   the sentinel cells beyond len (capacity tails). A write there changes no value the
//	        caller can reach without re-slicing beyond len; it is a fact about memory layout, not a
//	        violation: SpareNote reports it so that callers can COUNT it (soundness rule of round L).
type Guard struct {
	views  [][]orb.Point
	copies [][]orb.Point
	nval   []int // slots [0, nval) of a view are values, the rest spare
	outers []func() []entry
	outer0 [][]entry
	oval   []int
	note   string
}

func (gd *Guard) watch(full []orb.Point, values int) {
	gd.views = append(gd.views, full)
	gd.copies = append(gd.copies, append([]orb.Point(nil), full...))
	gd.nval = append(gd.nval, values)
}

func (gd *Guard) watchOuter(values int, f func() []entry) {
	gd.outers = append(gd.outers, f)
	gd.outer0 = append(gd.outer0, f())
	gd.oval = append(gd.oval, values)
}

// Check reports the first change of a VALUE (an element within len) since lay-out time. Changes of
// spare cells are remembered for SpareNote.
func (gd *Guard) Check() error {
	if gd == nil {
		return nil
	}
	for i, v := range gd.views {
		c := gd.copies[i]
		for j := range v {
			if math.Float64bits(v[j][0]) != math.Float64bits(c[j][0]) || math.Float64bits(v[j][1]) != math.Float64bits(c[j][1]) {
				if j < gd.nval[i] {
					return fmt.Errorf("the argument's value was changed: coordinate array %d, element %d (of %d elements within len): %v became %v", i, j, gd.nval[i], c[j], v[j])
				}
				if gd.note == "" {
					gd.note = fmt.Sprintf("spare capacity written: coordinate array %d, slot %d beyond len %d", i, j, gd.nval[i])
				}
			}
		}
	}
	for i, f := range gd.outers {
		s := f()
		for j := range s {
			if j < len(gd.outer0[i]) && s[j] == gd.outer0[i][j] {
				continue
			}
			if j < gd.oval[i] {
				return fmt.Errorf("the argument's value was changed: entry %d (of %d within len) of outer slice %d: %+v became %+v", j, gd.oval[i], i, gd.outer0[i][j], s[j])
			}
			if gd.note == "" {
				gd.note = fmt.Sprintf("spare capacity written: outer slice %d, slot %d beyond len %d", i, j, gd.oval[i])
			}
		}
	}
	return nil
}

// SpareNote returns a description of the first write into spare capacity seen by Check so far ("" if none).
func (gd *Guard) SpareNote() string {
	if gd == nil {
		return ""
	}
	return gd.note
}

// entry identifies one entry of an outer slice: slices by identity (kind, data pointer, len, cap),
// values by their bits.
type entry struct {
	kind    uint8
	p       unsafe.Pointer
	l, c    int
	b0, b1  uint64
	b2, b3  uint64
	unknown string
}

func describe(v interface{}) entry {
	switch x := v.(type) {
	case nil:
		return entry{kind: 1}
	case orb.Point:
		return entry{kind: 2, b0: math.Float64bits(x[0]), b1: math.Float64bits(x[1])}
	case orb.Bound:
		return entry{kind: 3, b0: math.Float64bits(x.Min[0]), b1: math.Float64bits(x.Min[1]), b2: math.Float64bits(x.Max[0]), b3: math.Float64bits(x.Max[1])}
	case orb.MultiPoint:
		return entry{kind: 4, p: unsafe.Pointer(unsafe.SliceData(x)), l: len(x), c: cap(x)}
	case orb.LineString:
		return entry{kind: 5, p: unsafe.Pointer(unsafe.SliceData(x)), l: len(x), c: cap(x)}
	case orb.Ring:
		return entry{kind: 6, p: unsafe.Pointer(unsafe.SliceData(x)), l: len(x), c: cap(x)}
	case orb.MultiLineString:
		return entry{kind: 7, p: unsafe.Pointer(unsafe.SliceData(x)), l: len(x), c: cap(x)}
	case orb.Polygon:
		return entry{kind: 8, p: unsafe.Pointer(unsafe.SliceData(x)), l: len(x), c: cap(x)}
	case orb.MultiPolygon:
		return entry{kind: 9, p: unsafe.Pointer(unsafe.SliceData(x)), l: len(x), c: cap(x)}
	case orb.Collection:
		return entry{kind: 10, p: unsafe.Pointer(unsafe.SliceData(x)), l: len(x), c: cap(x)}
	}
	return entry{kind: 255, unknown: fmt.Sprintf("%T%v", v, v)}
}

func describeAll(n int, at func(int) interface{}) []entry {
	out := make([]entry, n)
	for i := range out {
		out[i] = describe(at(i))
	}
	return out
}

func sameEntries(a, b []entry) bool {
	if len(a) != len(b) {
		return false
	}
	for i := range a {
		if a[i] != b[i] {
			return false
		}
	}
	return true
}

func countPoints(g orb.Geometry) int {
	n := 0
	switch v := g.(type) {
	case orb.MultiPoint:
		n = len(v)
	case orb.LineString:
		n = len(v)
	case orb.Ring:
		n = len(v)
	case orb.MultiLineString:
		for _, l := range v {
			n += len(l)
		}
	case orb.Polygon:
		for _, r := range v {
			n += len(r)
		}
	case orb.MultiPolygon:
		for _, p := range v {
			for _, r := range p {
				n += len(r)
			}
		}
	case orb.Collection:
		for _, m := range v {
			n += countPoints(m)
		}
	}
	return n
}

type layouter struct {
	mode string
	gd   *Guard
	buf  []orb.Point
	off  int
}

func (l *layouter) pts(ps []orb.Point) []orb.Point {
	if ps == nil {
		return nil
	}
	switch l.mode {
	case "shared":
		w := l.buf[l.off : l.off+len(ps)] // cap runs to the end of the buffer: len < cap
		copy(w, ps)
		l.off += len(ps)
		return w
	case "spare":
		full := make([]orb.Point, len(ps)+2)
		copy(full, ps)
		full[len(ps)], full[len(ps)+1] = sentinelPt, sentinelPt
		l.gd.watch(full, len(ps))
		return full[:len(ps)]
	}
	full := make([]orb.Point, len(ps))
	copy(full, ps)
	l.gd.watch(full, len(full))
	return full
}

// extra is the spare capacity given to outer slices.
func (l *layouter) extra() int {
	if l.mode == "plain" {
		return 0
	}
	return 2
}

func (l *layouter) polygon(p orb.Polygon) orb.Polygon {
	if p == nil {
		return nil
	}
	full := make(orb.Polygon, len(p)+l.extra())
	for i := range p {
		full[i] = l.pts(p[i])
	}
	for i := len(p); i < len(full); i++ {
		full[i] = orb.Ring{sentinelPt}
	}
	l.gd.watchOuter(len(p), func() []entry { return describeAll(len(full), func(i int) interface{} { return full[i] }) })
	return full[:len(p)]
}

func (l *layouter) geom(g orb.Geometry) orb.Geometry {
	switch v := g.(type) {
	case orb.MultiPoint:
		return orb.MultiPoint(l.pts(v))
	case orb.LineString:
		return orb.LineString(l.pts(v))
	case orb.Ring:
		return orb.Ring(l.pts(v))
	case orb.MultiLineString:
		if v == nil {
			return v
		}
		full := make(orb.MultiLineString, len(v)+l.extra())
		for i := range v {
			full[i] = l.pts(v[i])
		}
		for i := len(v); i < len(full); i++ {
			full[i] = orb.LineString{sentinelPt}
		}
		l.gd.watchOuter(len(v), func() []entry { return describeAll(len(full), func(i int) interface{} { return full[i] }) })
		return full[:len(v)]
	case orb.Polygon:
		return l.polygon(v)
	case orb.MultiPolygon:
		if v == nil {
			return v
		}
		full := make(orb.MultiPolygon, len(v)+l.extra())
		for i := range v {
			full[i] = l.polygon(v[i])
		}
		for i := len(v); i < len(full); i++ {
			full[i] = orb.Polygon{orb.Ring{sentinelPt}}
		}
		l.gd.watchOuter(len(v), func() []entry { return describeAll(len(full), func(i int) interface{} { return full[i] }) })
		return full[:len(v)]
	case orb.Collection:
		if v == nil {
			return v
		}
		full := make(orb.Collection, len(v)+l.extra())
		for i := range v {
			full[i] = l.geom(v[i])
		}
		for i := len(v); i < len(full); i++ {
			full[i] = sentinelPt
		}
		l.gd.watchOuter(len(v), func() []entry { return describeAll(len(full), func(i int) interface{} { return full[i] }) })
		return full[:len(v)]
	}
	return g // Point, Bound, nil: values
}

// LayOut returns an independent copy of g in the named layout ("shared", "spare"; anything else is
// plain) and the guard watching the copy's memory.
func LayOut(g orb.Geometry, mode string) (orb.Geometry, *Guard) {
	if mode != "shared" && mode != "spare" {
		mode = "plain"
	}
	l := &layouter{mode: mode, gd: &Guard{}}
	if mode == "shared" {
		l.buf = make([]orb.Point, countPoints(g)+3)
		for i := range l.buf {
			l.buf[i] = sentinelPt
		}
	}
	out := l.geom(g)
	if mode == "shared" {
		l.gd.watch(l.buf, l.off) // after the windows were filled: [0, off) are the rings' elements, then sentinels
	}
	return out, l.gd
}
