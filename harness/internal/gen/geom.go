// Package gen holds the rapid generators shared by the property packages and
// the loss-free JSON rendering of geometries used in replay files.
package gen

import (
	"fmt"
	"math"
	"strings"

	"github.com/paulmach/orb"
	"pgregory.net/rapid"
)

// ---------------------------------------------------------------- coordinates

// Hostile is the table of hostile finite constants.
var Hostile = []float64{
	0, math.Copysign(0, -1), 5e-324, -5e-324, math.MaxFloat64, -math.MaxFloat64,
	1e-7, 1e-5, 9.9999e-5, 1e-4, 0.00011, 999999.5, 1e6, 1234567.5, 1e20, 1e21, 1.5e21, 123456789.125, 0.1, -0.1,
	1.0 / 3, 2.2250738585072014e-308, 180, -180, 90, -90, 85.0511287798066, 20037508.342789244,
}

// SmallInt draws an integer in [-lim, lim] as float64.
func SmallInt(lim int) *rapid.Generator[float64] {
	return rapid.Custom(func(t *rapid.T) float64 { return float64(rapid.IntRange(-lim, lim).Draw(t, "i")) })
}

// Half draws a half-integer in [-lim, lim].
func Half(lim int) *rapid.Generator[float64] {
	return rapid.Custom(func(t *rapid.T) float64 { return float64(rapid.IntRange(-2*lim, 2*lim).Draw(t, "h")) / 2 })
}

// AnyFinite draws from the whole finite float64 range.
func AnyFinite() *rapid.Generator[float64] { return rapid.Float64() }

// Bits draws a raw bit pattern (NaN payloads, infinities, subnormals).
func Bits() *rapid.Generator[float64] {
	return rapid.Custom(func(t *rapid.T) float64 {
		switch rapid.IntRange(0, 5).Draw(t, "bk") {
		case 0:
			return math.Float64frombits(0x7ff8000000000000 | rapid.Uint64Range(0, 1<<51-1).Draw(t, "qnan"))
		case 1:
			return math.Float64frombits(0x7ff0000000000000 | rapid.Uint64Range(1, 1<<51-1).Draw(t, "snan"))
		case 2:
			return math.Inf(rapid.IntRange(0, 1).Draw(t, "s")*2 - 1)
		case 3:
			return math.Float64frombits(rapid.Uint64Range(1, 1<<52-1).Draw(t, "sub"))
		case 4:
			return math.Float64frombits(0xfff8000000000000 | rapid.Uint64Range(0, 1<<51-1).Draw(t, "nnan"))
		}
		return math.Float64frombits(rapid.Uint64().Draw(t, "bits"))
	})
}

// HostileConst draws from the Hostile table.
func HostileConst() *rapid.Generator[float64] { return rapid.SampledFrom(Hostile) }

// Lon draws a longitude in [-180,180].
func Lon() *rapid.Generator[float64] { return rapid.Float64Range(-180, 180) }

// Lat draws a latitude in [-85,85].
func Lat() *rapid.Generator[float64] { return rapid.Float64Range(-85, 85) }

// Mix draws from one of the generators, weights are repetition counts.
func Mix(gs ...*rapid.Generator[float64]) *rapid.Generator[float64] {
	return rapid.Custom(func(t *rapid.T) float64 {
		return gs[rapid.IntRange(0, len(gs)-1).Draw(t, "mix")].Draw(t, "c")
	})
}

// FiniteCoord is the default finite coordinate mix.
func FiniteCoord() *rapid.Generator[float64] {
	return Mix(SmallInt(8), SmallInt(8), Half(8), AnyFinite(), HostileConst(), rapid.Float64Range(-200, 200))
}

// AnyCoord additionally contains non-finite values.
func AnyCoord() *rapid.Generator[float64] {
	return Mix(SmallInt(8), Half(8), AnyFinite(), HostileConst(), Bits(), rapid.Float64Range(-200, 200))
}

// ---------------------------------------------------------------- geometry universe

// Kinds lists the nine geometry kinds in a fixed order.
var Kinds = []string{"Point", "MultiPoint", "LineString", "MultiLineString", "Ring", "Polygon", "MultiPolygon", "Collection", "Bound"}

// Opts controls the geometry universe.
type Opts struct {
	Coord        *rapid.Generator[float64] // coordinate generator (default FiniteCoord)
	Nil          bool                      // allow a nil interface at the top
	NilSlices    bool                      // allow typed nil slices
	Empty        bool                      // allow empty top-level values
	EmptyMembers bool                      // allow empty members inside multi-geometries
	Degenerate   bool                      // allow 1-vertex lines, rings with < 4 vertices, unclosed rings
	MaxDepth     int                       // collection nesting (0 = no collections)
	MaxLen       int                       // maximum elements per level (default 5)
	Kinds        []string                  // restrict kinds (default all nine; Collection only if MaxDepth > 0)
	InvertedBnd  bool                      // allow bounds with min > max
}

func (o Opts) maxLen() int {
	if o.MaxLen <= 0 {
		return 5
	}
	return o.MaxLen
}

func (o Opts) coord() *rapid.Generator[float64] {
	if o.Coord == nil {
		return FiniteCoord()
	}
	return o.Coord
}

func (o Opts) point(t *rapid.T) orb.Point {
	c := o.coord()
	return orb.Point{c.Draw(t, "x"), c.Draw(t, "y")}
}

func (o Opts) points(t *rapid.T, min int) []orb.Point {
	n := rapid.IntRange(min, o.maxLen()).Draw(t, "n")
	out := make([]orb.Point, n)
	for i := range out {
		out[i] = o.point(t)
	}
	return out
}

// slice state for a top-level or member slice: 0 normal, 1 empty non-nil, 2 nil.
func (o Opts) sliceState(t *rapid.T, top bool) int {
	allowEmpty := (top && o.Empty) || (!top && o.EmptyMembers)
	allowNil := top && o.NilSlices
	if !allowEmpty && !allowNil {
		return 0
	}
	r := rapid.IntRange(0, 9).Draw(t, "st")
	if r == 0 && allowEmpty {
		return 1
	}
	if r == 1 && allowNil {
		return 2
	}
	return 0
}

func (o Opts) line(t *rapid.T, top bool) orb.LineString {
	switch o.sliceState(t, top) {
	case 1:
		return orb.LineString{}
	case 2:
		return nil
	}
	min := 2
	if o.Degenerate {
		min = 1
	}
	return orb.LineString(o.points(t, min))
}

func (o Opts) ring(t *rapid.T, top bool) orb.Ring {
	switch o.sliceState(t, top) {
	case 1:
		return orb.Ring{}
	case 2:
		return nil
	}
	if o.Degenerate && rapid.IntRange(0, 3).Draw(t, "deg") == 0 {
		return orb.Ring(o.points(t, 1))
	}
	ps := o.points(t, 3)
	ps = append(ps, ps[0])
	return orb.Ring(ps)
}

func (o Opts) polygon(t *rapid.T, top bool) orb.Polygon {
	switch o.sliceState(t, top) {
	case 1:
		return orb.Polygon{}
	case 2:
		return nil
	}
	n := rapid.IntRange(1, 3).Draw(t, "rings")
	p := make(orb.Polygon, n)
	for i := range p {
		p[i] = o.ring(t, false)
	}
	return p
}

func (o Opts) kinds(depth int) []string {
	ks := o.Kinds
	if len(ks) == 0 {
		ks = Kinds
	}
	out := make([]string, 0, len(ks))
	for _, k := range ks {
		if k == "Collection" && depth >= o.MaxDepth {
			continue
		}
		out = append(out, k)
	}
	return out
}

func (o Opts) geom(t *rapid.T, depth int) orb.Geometry {
	ks := o.kinds(depth)
	k := ks[rapid.IntRange(0, len(ks)-1).Draw(t, "kind")]
	switch k {
	case "Point":
		return o.point(t)
	case "MultiPoint":
		switch o.sliceState(t, true) {
		case 1:
			return orb.MultiPoint{}
		case 2:
			return orb.MultiPoint(nil)
		}
		return orb.MultiPoint(o.points(t, 1))
	case "LineString":
		return o.line(t, true)
	case "Ring":
		return o.ring(t, true)
	case "MultiLineString":
		switch o.sliceState(t, true) {
		case 1:
			return orb.MultiLineString{}
		case 2:
			return orb.MultiLineString(nil)
		}
		n := rapid.IntRange(1, 3).Draw(t, "lines")
		m := make(orb.MultiLineString, n)
		for i := range m {
			m[i] = o.line(t, false)
		}
		return m
	case "Polygon":
		return o.polygon(t, true)
	case "MultiPolygon":
		switch o.sliceState(t, true) {
		case 1:
			return orb.MultiPolygon{}
		case 2:
			return orb.MultiPolygon(nil)
		}
		n := rapid.IntRange(1, 3).Draw(t, "polys")
		m := make(orb.MultiPolygon, n)
		for i := range m {
			m[i] = o.polygon(t, false)
		}
		return m
	case "Bound":
		a, b := o.point(t), o.point(t)
		if o.InvertedBnd && rapid.IntRange(0, 7).Draw(t, "inv") == 0 {
			return orb.Bound{Min: a, Max: b}
		}
		// NaN-safe min/max: keep a's value unless b's compares smaller/larger.
		mn, mx := a, a
		for i := 0; i < 2; i++ {
			if b[i] < mn[i] {
				mn[i] = b[i]
			}
			if b[i] > mx[i] {
				mx[i] = b[i]
			}
		}
		return orb.Bound{Min: mn, Max: mx}
	case "Collection":
		switch o.sliceState(t, true) {
		case 1:
			return orb.Collection{}
		case 2:
			return orb.Collection(nil)
		}
		n := rapid.IntRange(1, 3).Draw(t, "members")
		c := make(orb.Collection, n)
		for i := range c {
			c[i] = o.geom(t, depth+1)
		}
		return c
	}
	panic("unknown kind " + k)
}

// Geom is the generator for the geometry universe selected by o.
func Geom(o Opts) *rapid.Generator[orb.Geometry] {
	return rapid.Custom(func(t *rapid.T) orb.Geometry {
		if o.Nil && rapid.IntRange(0, 19).Draw(t, "nil") == 0 {
			return nil
		}
		return o.geom(t, 0)
	})
}

// ---------------------------------------------------------------- structure helpers

// KindOf names the dynamic kind ("nil" for a nil interface).
func KindOf(g orb.Geometry) string {
	switch g.(type) {
	case nil:
		return "nil"
	case orb.Point:
		return "Point"
	case orb.MultiPoint:
		return "MultiPoint"
	case orb.LineString:
		return "LineString"
	case orb.MultiLineString:
		return "MultiLineString"
	case orb.Ring:
		return "Ring"
	case orb.Polygon:
		return "Polygon"
	case orb.MultiPolygon:
		return "MultiPolygon"
	case orb.Collection:
		return "Collection"
	case orb.Bound:
		return "Bound"
	}
	return fmt.Sprintf("%T", g)
}

// Flatten returns a structural signature (kinds, nesting, lengths) and the
// coordinate bit patterns of g in a fixed traversal order. Two geometries are
// "the same kind, nesting and coordinates bit-for-bit" iff both agree. nil
// and empty slices have the same signature (use IsNilSlice to tell them apart).
func Flatten(g orb.Geometry) (string, []uint64) {
	var sb strings.Builder
	var bits []uint64
	flatten(g, &sb, &bits)
	return sb.String(), bits
}

func pushPts(ps []orb.Point, sb *strings.Builder, bits *[]uint64) {
	fmt.Fprintf(sb, "%d", len(ps))
	for _, p := range ps {
		*bits = append(*bits, math.Float64bits(p[0]), math.Float64bits(p[1]))
	}
}

func flatten(g orb.Geometry, sb *strings.Builder, bits *[]uint64) {
	switch v := g.(type) {
	case nil:
		sb.WriteString("nil")
	case orb.Point:
		sb.WriteString("P")
		*bits = append(*bits, math.Float64bits(v[0]), math.Float64bits(v[1]))
	case orb.MultiPoint:
		sb.WriteString("MP")
		pushPts(v, sb, bits)
	case orb.LineString:
		sb.WriteString("LS")
		pushPts(v, sb, bits)
	case orb.Ring:
		sb.WriteString("R")
		pushPts(v, sb, bits)
	case orb.MultiLineString:
		sb.WriteString("MLS[")
		for _, l := range v {
			pushPts(l, sb, bits)
			sb.WriteString(",")
		}
		sb.WriteString("]")
	case orb.Polygon:
		sb.WriteString("PG[")
		for _, r := range v {
			pushPts(r, sb, bits)
			sb.WriteString(",")
		}
		sb.WriteString("]")
	case orb.MultiPolygon:
		sb.WriteString("MPG[")
		for _, p := range v {
			sb.WriteString("[")
			for _, r := range p {
				pushPts(r, sb, bits)
				sb.WriteString(",")
			}
			sb.WriteString("]")
		}
		sb.WriteString("]")
	case orb.Bound:
		sb.WriteString("B")
		*bits = append(*bits, math.Float64bits(v.Min[0]), math.Float64bits(v.Min[1]), math.Float64bits(v.Max[0]), math.Float64bits(v.Max[1]))
	case orb.Collection:
		sb.WriteString("C[")
		for _, m := range v {
			flatten(m, sb, bits)
			sb.WriteString(";")
		}
		sb.WriteString("]")
	default:
		fmt.Fprintf(sb, "?%T", g)
	}
}

// SameBits reports whether a and b have the same kind, nesting, lengths and
// coordinate bit patterns; the string explains the first difference.
func SameBits(a, b orb.Geometry) (bool, string) {
	sa, ba := Flatten(a)
	sb, bb := Flatten(b)
	if sa != sb {
		return false, fmt.Sprintf("structure %s vs %s", sa, sb)
	}
	if len(ba) != len(bb) {
		return false, fmt.Sprintf("coordinate count %d vs %d", len(ba), len(bb))
	}
	for i := range ba {
		if ba[i] != bb[i] {
			return false, fmt.Sprintf("coordinate word %d: %016x (%v) vs %016x (%v)", i, ba[i], math.Float64frombits(ba[i]), bb[i], math.Float64frombits(bb[i]))
		}
	}
	return true, ""
}

// Canonical maps Ring to a one-ring Polygon and Bound to its polygon,
// recursively inside collections: the value the codecs are documented to
// return.
func Canonical(g orb.Geometry) orb.Geometry {
	switch v := g.(type) {
	case orb.Ring:
		return orb.Polygon{v}
	case orb.Bound:
		return BoundPolygon(v)
	case orb.Collection:
		if v == nil {
			return v
		}
		out := make(orb.Collection, len(v))
		for i, m := range v {
			out[i] = Canonical(m)
		}
		return out
	}
	return g
}

// BoundPolygon is the polygon a bound denotes (written independently of
// orb.Bound.ToPolygon: min,min → max,min → max,max → min,max → min,min).
func BoundPolygon(b orb.Bound) orb.Polygon {
	return orb.Polygon{orb.Ring{
		{b.Min[0], b.Min[1]}, {b.Max[0], b.Min[1]}, {b.Max[0], b.Max[1]}, {b.Min[0], b.Max[1]}, {b.Min[0], b.Min[1]},
	}}
}

// Depth is the collection nesting depth of g (0 for non-collections).
func Depth(g orb.Geometry) int {
	c, ok := g.(orb.Collection)
	if !ok {
		return 0
	}
	d := 0
	for _, m := range c {
		if dm := Depth(m); dm > d {
			d = dm
		}
	}
	return d + 1
}

// HasNonFinite reports whether any coordinate is NaN, ±Inf or -0.
func HasNonFinite(g orb.Geometry) bool {
	_, bits := Flatten(g)
	for _, b := range bits {
		f := math.Float64frombits(b)
		if math.IsNaN(f) || math.IsInf(f, 0) || b == 1<<63 {
			return true
		}
	}
	return false
}

// Walk calls f with a pointer to every coordinate slot reachable from g that
// is backed by shared memory (i.e. slices; Points and Bounds held by value in
// an interface are skipped unless they are slice elements).
func Walk(g orb.Geometry, f func(*float64)) {
	pts := func(ps []orb.Point) {
		for i := range ps {
			f(&ps[i][0])
			f(&ps[i][1])
		}
	}
	switch v := g.(type) {
	case orb.MultiPoint:
		pts(v)
	case orb.LineString:
		pts(v)
	case orb.Ring:
		pts(v)
	case orb.MultiLineString:
		for _, l := range v {
			pts(l)
		}
	case orb.Polygon:
		for _, r := range v {
			pts(r)
		}
	case orb.MultiPolygon:
		for _, p := range v {
			for _, r := range p {
				pts(r)
			}
		}
	case orb.Collection:
		for _, m := range v {
			Walk(m, f)
		}
	}
}

// DeepCopy is the harness's own deep copy (independent of orb.Clone),
// preserving nil-ness of slices.
func DeepCopy(g orb.Geometry) orb.Geometry {
	cp := func(ps []orb.Point) []orb.Point {
		if ps == nil {
			return nil
		}
		out := make([]orb.Point, len(ps))
		copy(out, ps)
		return out
	}
	switch v := g.(type) {
	case nil:
		return nil
	case orb.Point, orb.Bound:
		return v
	case orb.MultiPoint:
		return orb.MultiPoint(cp(v))
	case orb.LineString:
		return orb.LineString(cp(v))
	case orb.Ring:
		return orb.Ring(cp(v))
	case orb.MultiLineString:
		if v == nil {
			return v
		}
		out := make(orb.MultiLineString, len(v))
		for i := range v {
			out[i] = cp(v[i])
		}
		return out
	case orb.Polygon:
		if v == nil {
			return v
		}
		out := make(orb.Polygon, len(v))
		for i := range v {
			out[i] = cp(v[i])
		}
		return out
	case orb.MultiPolygon:
		if v == nil {
			return v
		}
		out := make(orb.MultiPolygon, len(v))
		for i := range v {
			if v[i] == nil {
				continue
			}
			out[i] = make(orb.Polygon, len(v[i]))
			for j := range v[i] {
				out[i][j] = cp(v[i][j])
			}
		}
		return out
	case orb.Collection:
		if v == nil {
			return v
		}
		out := make(orb.Collection, len(v))
		for i := range v {
			out[i] = DeepCopy(v[i])
		}
		return out
	}
	panic(fmt.Sprintf("DeepCopy: %T", g))
}
