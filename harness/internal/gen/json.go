package gen

import (
	"encoding/json"
	"fmt"
	"math"
	"strconv"
	"strings"

	"github.com/paulmach/orb"
)

// F is a float64 that survives JSON bit-for-bit: finite values are written as
// shortest round-trip numbers (-0 as -0), non-finite values as "0x<bits>".
type F float64

// MarshalJSON implements json.Marshaler.
func (f F) MarshalJSON() ([]byte, error) {
	v := float64(f)
	if math.IsNaN(v) || math.IsInf(v, 0) {
		return []byte(fmt.Sprintf("\"0x%016x\"", math.Float64bits(v))), nil
	}
	if v == 0 && math.Signbit(v) {
		return []byte("-0"), nil
	}
	return []byte(strconv.FormatFloat(v, 'g', -1, 64)), nil
}

// UnmarshalJSON implements json.Unmarshaler.
func (f *F) UnmarshalJSON(b []byte) error {
	s := strings.TrimSpace(string(b))
	if strings.HasPrefix(s, "\"") {
		s = strings.Trim(s, "\"")
		u, err := strconv.ParseUint(strings.TrimPrefix(s, "0x"), 16, 64)
		if err != nil {
			return err
		}
		*f = F(math.Float64frombits(u))
		return nil
	}
	v, err := strconv.ParseFloat(s, 64)
	if err != nil {
		return err
	}
	*f = F(v)
	return nil
}

// P is a point in replay files.
type P [2]F

// Pt converts to orb.
func (p P) Pt() orb.Point { return orb.Point{float64(p[0]), float64(p[1])} }

// FromPt converts from orb.
func FromPt(p orb.Point) P { return P{F(p[0]), F(p[1])} }

// Pts converts a point list for replay files.
func Pts(ps []orb.Point) []P {
	if ps == nil {
		return nil
	}
	out := make([]P, len(ps))
	for i, p := range ps {
		out[i] = FromPt(p)
	}
	return out
}

// OrbPts converts back.
func OrbPts(ps []P) []orb.Point {
	if ps == nil {
		return nil
	}
	out := make([]orb.Point, len(ps))
	for i, p := range ps {
		out[i] = p.Pt()
	}
	return out
}

// B is a bound in replay files.
type B struct {
	Min P `json:"min"`
	Max P `json:"max"`
}

// Bound converts to orb.
func (b B) Bound() orb.Bound { return orb.Bound{Min: b.Min.Pt(), Max: b.Max.Pt()} }

// FromBound converts from orb.
func FromBound(b orb.Bound) B { return B{FromPt(b.Min), FromPt(b.Max)} }

// G wraps a geometry so that it can be stored in replay files and samples
// without loss (kind, nil-ness of slices, coordinate bits).
type G struct{ V orb.Geometry }

type gdoc struct {
	T string          `json:"t"`
	C json.RawMessage `json:"c,omitempty"`
	G []G             `json:"g,omitempty"`
	N bool            `json:"nil,omitempty"`
}

func rawOf(v interface{}) json.RawMessage {
	b, err := json.Marshal(v)
	if err != nil {
		panic(err)
	}
	return b
}

func lsP(ls []orb.Point) []P {
	out := make([]P, len(ls))
	for i, p := range ls {
		out[i] = FromPt(p)
	}
	return out
}

func polyP(p orb.Polygon) [][]P {
	out := make([][]P, len(p))
	for i, r := range p {
		out[i] = lsP(r)
	}
	return out
}

// MarshalJSON implements json.Marshaler.
func (g G) MarshalJSON() ([]byte, error) {
	switch v := g.V.(type) {
	case nil:
		return []byte("null"), nil
	case orb.Point:
		return json.Marshal(gdoc{T: "Point", C: rawOf(FromPt(v))})
	case orb.MultiPoint:
		return json.Marshal(gdoc{T: "MultiPoint", C: rawOf(lsP(v)), N: v == nil})
	case orb.LineString:
		return json.Marshal(gdoc{T: "LineString", C: rawOf(lsP(v)), N: v == nil})
	case orb.Ring:
		return json.Marshal(gdoc{T: "Ring", C: rawOf(lsP(v)), N: v == nil})
	case orb.MultiLineString:
		c := make([][]P, len(v))
		for i, l := range v {
			c[i] = lsP(l)
		}
		return json.Marshal(gdoc{T: "MultiLineString", C: rawOf(c), N: v == nil})
	case orb.Polygon:
		return json.Marshal(gdoc{T: "Polygon", C: rawOf(polyP(v)), N: v == nil})
	case orb.MultiPolygon:
		c := make([][][]P, len(v))
		for i, p := range v {
			c[i] = polyP(p)
		}
		return json.Marshal(gdoc{T: "MultiPolygon", C: rawOf(c), N: v == nil})
	case orb.Bound:
		return json.Marshal(gdoc{T: "Bound", C: rawOf([]P{FromPt(v.Min), FromPt(v.Max)})})
	case orb.Collection:
		gs := make([]G, len(v))
		for i, m := range v {
			gs[i] = G{m}
		}
		return json.Marshal(gdoc{T: "Collection", G: gs, N: v == nil})
	}
	return nil, fmt.Errorf("gen.G: unsupported %T", g.V)
}

func toLS(ps []P) []orb.Point {
	out := make([]orb.Point, len(ps))
	for i, p := range ps {
		out[i] = p.Pt()
	}
	return out
}

// UnmarshalJSON implements json.Unmarshaler.
func (g *G) UnmarshalJSON(b []byte) error {
	if strings.TrimSpace(string(b)) == "null" {
		g.V = nil
		return nil
	}
	var d gdoc
	if err := json.Unmarshal(b, &d); err != nil {
		return err
	}
	switch d.T {
	case "Point":
		var p P
		if err := json.Unmarshal(d.C, &p); err != nil {
			return err
		}
		g.V = p.Pt()
	case "MultiPoint", "LineString", "Ring":
		var ps []P
		if len(d.C) > 0 {
			if err := json.Unmarshal(d.C, &ps); err != nil {
				return err
			}
		}
		pts := toLS(ps)
		if d.N {
			pts = nil
		}
		switch d.T {
		case "MultiPoint":
			g.V = orb.MultiPoint(pts)
		case "LineString":
			g.V = orb.LineString(pts)
		default:
			g.V = orb.Ring(pts)
		}
	case "MultiLineString":
		var c [][]P
		if len(d.C) > 0 {
			if err := json.Unmarshal(d.C, &c); err != nil {
				return err
			}
		}
		v := make(orb.MultiLineString, len(c))
		for i := range c {
			v[i] = toLS(c[i])
		}
		if d.N {
			v = nil
		}
		g.V = v
	case "Polygon":
		var c [][]P
		if len(d.C) > 0 {
			if err := json.Unmarshal(d.C, &c); err != nil {
				return err
			}
		}
		v := make(orb.Polygon, len(c))
		for i := range c {
			v[i] = toLS(c[i])
		}
		if d.N {
			v = nil
		}
		g.V = v
	case "MultiPolygon":
		var c [][][]P
		if len(d.C) > 0 {
			if err := json.Unmarshal(d.C, &c); err != nil {
				return err
			}
		}
		v := make(orb.MultiPolygon, len(c))
		for i := range c {
			v[i] = make(orb.Polygon, len(c[i]))
			for j := range c[i] {
				v[i][j] = toLS(c[i][j])
			}
		}
		if d.N {
			v = nil
		}
		g.V = v
	case "Bound":
		var ps []P
		if err := json.Unmarshal(d.C, &ps); err != nil {
			return err
		}
		if len(ps) != 2 {
			return fmt.Errorf("bound needs 2 points")
		}
		g.V = orb.Bound{Min: ps[0].Pt(), Max: ps[1].Pt()}
	case "Collection":
		v := make(orb.Collection, len(d.G))
		for i := range d.G {
			v[i] = d.G[i].V
		}
		if d.N {
			v = nil
		}
		g.V = v
	default:
		return fmt.Errorf("gen.G: unknown kind %q", d.T)
	}
	return nil
}

// Canon renders a geometry canonically (used for hashing distinct cases).
func Canon(g orb.Geometry) string {
	b, err := G{g}.MarshalJSON()
	if err != nil {
		return fmt.Sprintf("%T%v", g, g)
	}
	return string(b)
}

// JSON renders any value as a JSON string (for hashing whole cases).
func JSON(v interface{}) string {
	b, err := json.Marshal(v)
	if err != nil {
		return fmt.Sprintf("%+v", v)
	}
	return string(b)
}
